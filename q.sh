#!/bin/sh
# dev helper: q.sh PROP RUNS -> condensed vcheck output
cd /verif && ./bin/vcheck "$1" --runs "${2:-150}" --no-evidence 2>&1 | grep -E "VIOLATION|KNOWN|assertion=|vcheck .*runs|infrastructure|WARNING" | cut -c1-${3:-900}

#!/bin/sh
# Builds the framework tools from files on disk only (offline).
set -e
cd "$(dirname "$0")"
export GOFLAGS=-mod=mod GOPROXY=off GOSUMDB=off GOTOOLCHAIN=local
export PATH=/opt/veriftools/go1.26.8/bin:$PATH
mkdir -p bin .build evidence
go build -o bin/simgen ./cmd/simgen
go build -o bin/vcheck ./cmd/vcheck
cp /repo/go.sum harness/go.sum 2>/dev/null || true
echo "setup ok"

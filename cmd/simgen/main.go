// simgen instruments bio-rd for deterministic simulation without touching /repo.
//
// It loads the in-scope packages of the bio-rd working tree with type information,
// rewrites timers, mutexes, map iteration, the outgoing TCP dial and a few tuning
// constants to go through verif.local/simrt, writes the rewritten files into an
// output directory and emits an overlay.json for `go build -overlay`.
// Hand-written accessor files from /verif/overlay/<pkg path>/ are added to the
// overlay as additional files of the respective package.
package main

import (
	"bytes"
	"encoding/json"
	"flag"
	"fmt"
	"go/ast"
	"go/format"
	"go/token"
	"go/types"
	"os"
	"path/filepath"
	"sort"
	"strconv"
	"strings"

	"golang.org/x/tools/go/packages"
)

var scope = []string{
	"net",
	"route",
	"routingtable",
	"routingtable/adjRIBIn",
	"routingtable/adjRIBOut",
	"routingtable/locRIB",
	"routingtable/mergedlocrib",
	"routingtable/vrf",
	"util/refcounter",
	"protocols/bgp/server",
	"protocols/isis/server",
	"risclient",
}

const simrtPath = "verif.local/simrt"

type report struct {
	Files          int            `json:"files_rewritten"`
	Timers         int            `json:"timer_rewrites"`
	Mutexes        int            `json:"mutex_rewrites"`
	MapRanges      int            `json:"map_range_rewrites"`
	MapRangeSkips  []string       `json:"map_range_skipped"`
	Dials          int            `json:"dial_rewrites"`
	Knobs          int            `json:"knob_rewrites"`
	Added          []string       `json:"added_files"`
	PerPackage     map[string]int `json:"rewrites_per_package"`
	MultiCaseSelect int           `json:"multi_case_selects"`
}

func main() {
	repo := flag.String("repo", "/repo", "bio-rd working tree")
	out := flag.String("out", "", "output directory")
	ovl := flag.String("overlay", "/verif/overlay", "directory with hand-written accessor files")
	flag.Parse()
	if *out == "" {
		fmt.Fprintln(os.Stderr, "simgen: -out required")
		os.Exit(2)
	}
	if err := run(*repo, *out, *ovl); err != nil {
		fmt.Fprintln(os.Stderr, "simgen:", err)
		os.Exit(2)
	}
}

func run(repo, out, ovl string) error {
	if err := os.MkdirAll(out, 0o755); err != nil {
		return err
	}
	var patterns []string
	for _, s := range scope {
		patterns = append(patterns, "./"+s)
	}
	cfg := &packages.Config{
		Mode: packages.NeedName | packages.NeedFiles | packages.NeedCompiledGoFiles | packages.NeedSyntax |
			packages.NeedTypes | packages.NeedTypesInfo | packages.NeedImports | packages.NeedDeps,
		Dir:   repo,
		Tests: false,
		Env:   append(os.Environ(), "GOFLAGS=-mod=mod", "GOPROXY=off", "GOSUMDB=off"),
	}
	pkgs, err := packages.Load(cfg, patterns...)
	if err != nil {
		return err
	}
	rep := &report{PerPackage: map[string]int{}}
	overlay := map[string]string{}
	for _, p := range pkgs {
		if len(p.Errors) > 0 {
			return fmt.Errorf("package %s: %v", p.PkgPath, p.Errors[0])
		}
		for i, f := range p.Syntax {
			name := p.CompiledGoFiles[i]
			if strings.HasSuffix(name, "_test.go") || strings.HasSuffix(name, ".pb.go") {
				continue
			}
			rw := &rewriter{pkg: p, file: f, rep: rep, fset: p.Fset}
			if !rw.rewrite() {
				continue
			}
			var buf bytes.Buffer
			if err := format.Node(&buf, p.Fset, f); err != nil {
				return fmt.Errorf("%s: %v", name, err)
			}
			rel, err := filepath.Rel(repo, name)
			if err != nil {
				return err
			}
			dst := filepath.Join(out, "src", rel)
			if err := os.MkdirAll(filepath.Dir(dst), 0o755); err != nil {
				return err
			}
			if err := os.WriteFile(dst, buf.Bytes(), 0o644); err != nil {
				return err
			}
			overlay[name] = dst
			rep.Files++
			rep.PerPackage[p.PkgPath] += rw.count
		}
	}
	// accessor files
	err = filepath.Walk(ovl, func(path string, info os.FileInfo, err error) error {
		if err != nil {
			return err
		}
		if info.IsDir() || !strings.HasSuffix(path, ".go") {
			return nil
		}
		rel, _ := filepath.Rel(ovl, path)
		target := filepath.Join(repo, rel)
		if _, err := os.Stat(filepath.Dir(target)); err != nil {
			return nil // package directory no longer exists; the build will say so
		}
		overlay[target] = path
		rep.Added = append(rep.Added, rel)
		return nil
	})
	if err != nil && !os.IsNotExist(err) {
		return err
	}
	sort.Strings(rep.Added)
	ob, _ := json.MarshalIndent(map[string]any{"Replace": overlay}, "", " ")
	if err := os.WriteFile(filepath.Join(out, "overlay.json"), ob, 0o644); err != nil {
		return err
	}
	rb, _ := json.MarshalIndent(rep, "", " ")
	return os.WriteFile(filepath.Join(out, "simgen_report.json"), rb, 0o644)
}

type rewriter struct {
	pkg   *packages.Package
	file  *ast.File
	fset  *token.FileSet
	rep   *report
	count int
	need  bool // needs simrt import
	tmp   int
}

func (rw *rewriter) pkgNameOf(id *ast.Ident) string {
	if obj, ok := rw.pkg.TypesInfo.Uses[id]; ok {
		if pn, ok := obj.(*types.PkgName); ok {
			return pn.Imported().Path()
		}
	}
	return ""
}

var timerNames = map[string]bool{
	"NewTimer": true, "After": true, "NewTicker": true, "Tick": true,
	"AfterFunc": true, "Sleep": true, "Timer": true, "Ticker": true,
}

func (rw *rewriter) simrtSel(name string) *ast.SelectorExpr {
	rw.need = true
	return &ast.SelectorExpr{X: ast.NewIdent("simrt"), Sel: ast.NewIdent(name)}
}

func (rw *rewriter) rewrite() bool {
	info := rw.pkg.TypesInfo
	isServer := strings.HasSuffix(rw.pkg.PkgPath, "protocols/bgp/server")

	// pass 1: selector rewrites (timers, mutexes, dial) and knobs
	ast.Inspect(rw.file, func(n ast.Node) bool {
		switch x := n.(type) {
		case *ast.SelectorExpr:
			id, ok := x.X.(*ast.Ident)
			if !ok {
				return true
			}
			switch rw.pkgNameOf(id) {
			case "time":
				if timerNames[x.Sel.Name] {
					id.Name = "simrt"
					rw.need = true
					rw.count++
					rw.rep.Timers++
				}
			case "sync":
				if x.Sel.Name == "Mutex" || x.Sel.Name == "RWMutex" {
					id.Name = "simrt"
					rw.need = true
					rw.count++
					rw.rep.Mutexes++
				}
			}
		case *ast.CallExpr:
			if isServer {
				if sel, ok := x.Fun.(*ast.SelectorExpr); ok {
					if id, ok := sel.X.(*ast.Ident); ok && sel.Sel.Name == "Dial" &&
						strings.HasSuffix(rw.pkgNameOf(id), "net/tcp") {
						x.Fun = ast.NewIdent("verifDial")
						rw.count++
						rw.rep.Dials++
					}
					// updateSender.Start(<aggregation interval>)
					if sel.Sel.Name == "Start" && len(x.Args) == 1 {
						if tv, ok := info.Types[sel.X]; ok && strings.HasSuffix(tv.Type.String(), "server.UpdateSender") {
							x.Args[0] = &ast.CallExpr{
								Fun:  rw.simrtSel("KnobDuration"),
								Args: []ast.Expr{&ast.BasicLit{Kind: token.STRING, Value: strconv.Quote("bgp.aggr")}, x.Args[0]},
							}
							rw.count++
							rw.rep.Knobs++
						}
					}
				}
			}
		case *ast.SelectStmt:
			n := 0
			for _, c := range x.Body.List {
				if cc, ok := c.(*ast.CommClause); ok && cc.Comm != nil {
					n++
				}
			}
			if n > 1 {
				rw.rep.MultiCaseSelect++
			}
		}
		return true
	})

	// pass 2: map ranges (post-order so nested ranges are handled inside out)
	rw.rewriteRanges(rw.file)

	if !rw.need && rw.count == 0 {
		return false
	}
	if rw.need {
		rw.addImport()
	}
	rw.dropUnusedImports()
	return true
}

func isPure(e ast.Expr) bool {
	switch x := e.(type) {
	case *ast.Ident:
		return true
	case *ast.SelectorExpr:
		return isPure(x.X)
	case *ast.ParenExpr:
		return isPure(x.X)
	case *ast.StarExpr:
		return isPure(x.X)
	}
	return false
}

func (rw *rewriter) fresh(prefix string) string {
	rw.tmp++
	return fmt.Sprintf("verif%s%d", prefix, rw.tmp)
}

// rewriteRanges walks statement lists and replaces map ranges.
func (rw *rewriter) rewriteRanges(root ast.Node) {
	info := rw.pkg.TypesInfo
	var fix func(list []ast.Stmt)
	var visit func(n ast.Node)
	conv := func(s ast.Stmt, labeled bool) ast.Stmt {
		rs, ok := s.(*ast.RangeStmt)
		if !ok {
			return s
		}
		tv, ok := info.Types[rs.X]
		if !ok {
			return s
		}
		if _, isMap := tv.Type.Underlying().(*types.Map); !isMap {
			return s
		}
		pos := rw.fset.Position(rs.Pos())
		where := fmt.Sprintf("%s:%d", filepath.Base(pos.Filename), pos.Line)
		if rs.Key == nil || rs.Tok != token.DEFINE {
			rw.rep.MapRangeSkips = append(rw.rep.MapRangeSkips, where+" (no key or assignment form)")
			return s
		}
		pure := isPure(rs.X)
		if !pure && labeled {
			rw.rep.MapRangeSkips = append(rw.rep.MapRangeSkips, where+" (labeled, impure)")
			return s
		}
		var pre ast.Stmt
		mexpr := rs.X
		if !pure {
			name := rw.fresh("M")
			pre = &ast.AssignStmt{Lhs: []ast.Expr{ast.NewIdent(name)}, Tok: token.DEFINE, Rhs: []ast.Expr{rs.X}}
			mexpr = ast.NewIdent(name)
		}
		keyName := ""
		if id, ok := rs.Key.(*ast.Ident); ok && id.Name != "_" {
			keyName = id.Name
		} else {
			keyName = rw.fresh("K")
		}
		okName := rw.fresh("OK")
		var head []ast.Stmt
		valLhs := ast.Expr(ast.NewIdent("_"))
		if rs.Value != nil {
			if id, ok := rs.Value.(*ast.Ident); !ok || id.Name != "_" {
				valLhs = rs.Value
			}
		}
		head = append(head, &ast.AssignStmt{
			Lhs: []ast.Expr{valLhs, ast.NewIdent(okName)},
			Tok: token.DEFINE,
			Rhs: []ast.Expr{&ast.IndexExpr{X: mexpr, Index: ast.NewIdent(keyName)}},
		})
		head = append(head, &ast.IfStmt{
			Cond: &ast.UnaryExpr{Op: token.NOT, X: ast.NewIdent(okName)},
			Body: &ast.BlockStmt{List: []ast.Stmt{&ast.BranchStmt{Tok: token.CONTINUE}}},
		})
		rs.Body.List = append(head, rs.Body.List...)
		rs.Key = ast.NewIdent("_")
		rs.Value = ast.NewIdent(keyName)
		rs.X = &ast.CallExpr{Fun: rw.simrtSel("Keys"), Args: []ast.Expr{mexpr}}
		rw.count++
		rw.rep.MapRanges++
		if pre != nil {
			return &ast.BlockStmt{List: []ast.Stmt{pre, rs}}
		}
		return rs
	}
	fix = func(list []ast.Stmt) {
		for i, s := range list {
			visit(s)
			switch x := s.(type) {
			case *ast.LabeledStmt:
				x.Stmt = conv(x.Stmt, true)
			default:
				list[i] = conv(s, false)
			}
		}
	}
	visit = func(n ast.Node) {
		ast.Inspect(n, func(c ast.Node) bool {
			switch x := c.(type) {
			case *ast.BlockStmt:
				fix(x.List)
				return false
			case *ast.CaseClause:
				fix(x.Body)
				return false
			case *ast.CommClause:
				fix(x.Body)
				return false
			}
			return true
		})
	}
	visit(root)
}

func (rw *rewriter) addImport() {
	for _, imp := range rw.file.Imports {
		if p, _ := strconv.Unquote(imp.Path.Value); p == simrtPath {
			return
		}
	}
	spec := &ast.ImportSpec{Name: ast.NewIdent("simrt"), Path: &ast.BasicLit{Kind: token.STRING, Value: strconv.Quote(simrtPath)}}
	for _, d := range rw.file.Decls {
		if gd, ok := d.(*ast.GenDecl); ok && gd.Tok == token.IMPORT {
			gd.Specs = append(gd.Specs, spec)
			if !gd.Lparen.IsValid() {
				gd.Lparen = gd.Pos()
				gd.Rparen = gd.End()
			}
			rw.file.Imports = append(rw.file.Imports, spec)
			return
		}
	}
	gd := &ast.GenDecl{Tok: token.IMPORT, Specs: []ast.Spec{spec}}
	rw.file.Decls = append([]ast.Decl{gd}, rw.file.Decls...)
	rw.file.Imports = append(rw.file.Imports, spec)
}

// dropUnusedImports removes "time"/"sync" imports that no longer have users.
func (rw *rewriter) dropUnusedImports() {
	used := map[string]bool{}
	ast.Inspect(rw.file, func(n ast.Node) bool {
		if sel, ok := n.(*ast.SelectorExpr); ok {
			if id, ok := sel.X.(*ast.Ident); ok {
				if id.Name == "simrt" {
					return true
				}
				if p := rw.pkgNameOf(id); p != "" {
					used[p] = true
				}
			}
		}
		return true
	})
	for _, d := range rw.file.Decls {
		gd, ok := d.(*ast.GenDecl)
		if !ok || gd.Tok != token.IMPORT {
			continue
		}
		var keep []ast.Spec
		for _, s := range gd.Specs {
			is := s.(*ast.ImportSpec)
			p, _ := strconv.Unquote(is.Path.Value)
			if (p == "time" || p == "sync") && !used[p] && is.Name == nil {
				continue
			}
			keep = append(keep, s)
		}
		gd.Specs = keep
	}
}

// vcheck is the runner behind every registered check:
// instrument /repo's working tree -> build the engine -> shard seeded simulated runs over
// processes -> confirm and minimise violations -> classify against known findings ->
// write evidence -> exit 0 (held / only known findings), 1 (VIOLATION), 2 (infrastructure).
package main

import (
	"bufio"
	"bytes"
	"crypto/sha256"
	"encoding/hex"
	"encoding/json"
	"flag"
	"fmt"
	"io"
	"os"
	"os/exec"
	"path/filepath"
	"regexp"
	"runtime"
	"sort"
	"strconv"
	"strings"
	"sync"
	"time"
)

// verifDir is the directory the runner works in: the current directory if it is a copy of /verif
// (the registered commands run in /verif; `vp run` and seedcheck.sh run in a snapshot of the
// committed tree), /verif otherwise.
var verifDir = func() string {
	if wd, err := os.Getwd(); err == nil {
		if _, err := os.Stat(filepath.Join(wd, "cmd", "vcheck", "main.go")); err == nil {
			if _, err := os.Stat(filepath.Join(wd, "harness", "bgp")); err == nil {
				return wd
			}
		}
	}
	return "/verif"
}()

const goBin = "/opt/veriftools/go1.26.8/bin"

type propInfo struct {
	Engine       string // harness package
	Quick        int    // runs in the quick tier
	Thorough     int    // runs in the thorough tier
	BatchSize    int
	CrashOwner   bool // a crash of the DUT is a violation of this property
	Race         bool // build with -race
	Rule         string
	Assumptions  []string
	PerRunTimeout time.Duration
}

var stdAssumptions = []string{
	"instrumented build: product timers, mutexes and map iteration go through verif.local/simrt (who decides order changes, not what the code does); compiled with go1.26.8 instead of the repo's go1.24.2",
	"scripted peers and all oracles use the harness' own BGP codec and reference models (trusted base)",
	"seeded sampling, not enumeration: a clean batch is evidence, not proof",
}

var isisAssumptions = []string{
	"IS-IS: scripted neighbours and the decoding of what the DUT sends use bio-rd's own protocols/isis/packet (the codec is not the subject of C31-C33); simulated time is the package's mock clock, moved in steps of at most one second",
}

var props = map[string]propInfo{
	"C01": {Engine: "bgp", Quick: 4000, Thorough: 40000, BatchSize: 50},
	"C02": {Engine: "bgp", Quick: 60000, Thorough: 600000, BatchSize: 1000},
	"C04": {Engine: "bgp", Quick: 40000, Thorough: 400000, BatchSize: 500},
	"C05": {Engine: "bgp", Quick: 5000, Thorough: 50000},
	"C06": {Engine: "bgp", Quick: 5000, Thorough: 50000},
	"C07": {Engine: "bgp", Quick: 3000, Thorough: 30000},
	"C08": {Engine: "bgp", Quick: 5000, Thorough: 50000},
	"C09": {Engine: "bgp", Quick: 5000, Thorough: 50000},
	"C10": {Engine: "bgp", Quick: 6000, Thorough: 60000},
	"C11": {Engine: "bgp", Quick: 4000, Thorough: 40000},
	"C12": {Engine: "bgp", Quick: 4000, Thorough: 40000},
	"C13": {Engine: "bgp", Quick: 5000, Thorough: 50000},
	"C18": {Engine: "bgp", Quick: 600, Thorough: 6000, BatchSize: 10, PerRunTimeout: 120 * time.Second},
	"C19": {Engine: "bgp", Quick: 5000, Thorough: 50000},
	"C20": {Engine: "bgp", Quick: 5000, Thorough: 50000},
	"C21": {Engine: "bgp", Quick: 1500, Thorough: 15000},
	"C22": {Engine: "bgp", Quick: 1200, Thorough: 12000, BatchSize: 20},
	"C23": {Engine: "bgp", Quick: 8000, Thorough: 80000},
	"C24": {Engine: "bgp", Quick: 6000, Thorough: 60000},
	"C25": {Engine: "bgp", Quick: 6000, Thorough: 60000},
	"C26": {Engine: "bgp", Quick: 1200, Thorough: 12000, BatchSize: 10, Race: true, PerRunTimeout: 60 * time.Second, Assumptions: []string{
		"race build: the Go runtime randomises goroutine wake-ups under -race, so a seed fixes the plan and the yields but not the exact interleaving (determinism and replay rates are measured, see DESIGN.md 12.5); the detector only judges accesses that were executed",
	}},
	"C27": {Engine: "bgp", Quick: 20000, Thorough: 200000, BatchSize: 250},
	"C28": {Engine: "bgp", Quick: 20000, Thorough: 200000, BatchSize: 250},
	"C29": {Engine: "bgp", Quick: 40000, Thorough: 400000, BatchSize: 500},
	"C31": {Engine: "bgp", Quick: 12000, Thorough: 120000, BatchSize: 150, Assumptions: isisAssumptions},
	"C32": {Engine: "bgp", Quick: 8000, Thorough: 80000, BatchSize: 100, Assumptions: isisAssumptions},
	"C33": {Engine: "bgp", Quick: 12000, Thorough: 120000, BatchSize: 150, Assumptions: isisAssumptions},
	"C36": {Engine: "cfg", Quick: 3000, Thorough: 30000, BatchSize: 50, Assumptions: []string{
		"policies are compared through their effect on the routes the scripted neighbours announce (three prefixes each), not structurally",
		"every neighbour keeps its AS number across configurations; routing instances (VRFs) other than the default one are not generated",
	}},
}

type violation struct {
	Prop      string `json:"prop"`
	Assertion string `json:"assertion"`
	Detail    string `json:"detail"`
	SimTimeNS int64  `json:"sim_time_ns"`
	Step      int    `json:"step"`
}

type runResult struct {
	Prop       string          `json:"prop"`
	Seed       uint64          `json:"seed"`
	Violations []violation     `json:"violations"`
	Probes     map[string]int  `json:"probes"`
	Faults     map[string]int  `json:"faults"`
	Stats      map[string]any  `json:"stats"`
	TraceHash  string          `json:"trace_hash"`
	ShapeHash  string          `json:"shape_hash"`
	SimTimeNS  int64           `json:"sim_time_ns"`
	Steps      int             `json:"steps"`
	Nontrivial bool            `json:"nontrivial"`
	Panic      string          `json:"panic"`
	Trace      []string        `json:"trace"`
	WallUS     int64           `json:"wall_us"`
	Inconclusive int           `json:"inconclusive"`
}

type outLine struct {
	Kind   string          `json:"kind"`
	Index  int             `json:"index"`
	Seed   uint64          `json:"seed"`
	Result *runResult      `json:"result"`
	Plan   json.RawMessage `json:"plan"`
}

type knownFinding struct {
	ID          string `json:"id"`
	Property    string `json:"property"`
	Assertion   string `json:"assertion"`
	DetailRegex string `json:"detail_regex,omitempty"`
	Status      string `json:"status"` // open | fixed
	Commit      string `json:"commit,omitempty"`
	Summary     string `json:"summary"`
	Replay      string `json:"replay,omitempty"`
	re          *regexp.Regexp
}

// repoDir is the bio-rd working tree the checks are built from: /repo. VERIF_REPO points the
// runner at a scratch copy instead; registered commands never set it.
func repoDir() string {
	if d := os.Getenv("VERIF_REPO"); d != "" {
		return d
	}
	return "/repo"
}

// componentsOf lists which bio-rd code a property's simulation runs for real and what is stubbed.
func componentsOf(prop string, real bool) []string {
	switch prop {
	case "C29":
		if real {
			return []string{"routingtable/mergedlocrib", "risclient (RISClient receive loop: serviceLoop, processUpdate, processDownEvent - in half of the plans)", "routingtable/locRIB", "route", "net"}
		}
		return []string{"gRPC ObserveRIB stream (simulated: a channel of RIBUpdate ending with EOF or a transport error)", "RISClient connection management / re-dialling (one goroutine per source serves one simulated stream after the other)", "in the other half of the plans the sources call the Client interface (AddRoute / RemoveRoute / DropAllBySrc) directly"}
	case "C01", "C02", "C04":
		if real {
			return []string{"routingtable (RoutingTable, ClientManager)", "routingtable/locRIB", "routingtable/adjRIBOut", "routingtable/mergedlocrib", "route", "net"}
		}
		return []string{"callers of the table API (harness tasks)", "recording clients"}
	case "C27", "C28":
		if real {
			return []string{"protocols/bgp/server (BMP Router.serve, neighbor manager, pseudo FSMs)", "protocols/bmp/packet", "protocols/bgp/packet", "routingtable/**", "route", "net"}
		}
		return []string{"monitored router (scripted BMP byte streams)", "TCP connection (simulated net.Conn)", "BMPReceiver accept/dial loop (not exercised)"}
	case "C31", "C32", "C33":
		if real {
			return []string{"protocols/isis/server", "protocols/isis/packet (also used by the scripted neighbours)", "benbjohnson/clock mock clock (moved by the plan)"}
		}
		return []string{"ethernet interfaces (simulated, via SetEthernetInterfaceFactory)", "device updater (link events from the plan)", "IS-IS neighbours (scripted)", "hostname"}
	case "C36":
		if real {
			return []string{"cmd/bio-rd (loadConfig, bgpConfigurator)", "cmd/bio-rd/config (YAML loader)", "protocols/bgp/server", "protocols/bgp/packet", "routingtable/**", "route", "net"}
		}
		return []string{"configuration file contents (generated YAML written to a temp file)", "kernel TCP (simulated)", "BGP neighbours (scripted peers with independent codec)", "device server, gRPC, IS-IS part of the daemon (not started)"}
	}
	if real {
		return []string{"protocols/bgp/server", "protocols/bgp/packet", "routingtable/**", "route", "net", "util/refcounter"}
	}
	return []string{"kernel TCP (simulated net.Conn + listener manager + Dial seam)", "BGP neighbours (scripted peers with independent codec)", "logging sink", "gRPC/prometheus (not started)"}
}

func replayDir() string {
	if d := os.Getenv("VERIF_REPLAY_DIR"); d != "" {
		return d
	}
	return filepath.Join(verifDir, "replays")
}

func infra(format string, args ...any) {
	fmt.Fprintf(os.Stderr, "vcheck: infrastructure problem: "+format+"\n", args...)
	cleanup()
	os.Exit(2)
}

func baseEnv() []string {
	env := os.Environ()
	env = append(env, "GOFLAGS=-mod=mod", "GOPROXY=off", "GOSUMDB=off", "GOTOOLCHAIN=local",
		"PATH="+goBin+":"+os.Getenv("PATH"), "GODEBUG=asyncpreemptoff=1",
		// race build only: reports go to <cwd>/racelog.<pid>, where the engine collects them per run
		"GORACE=log_path=racelog")
	return env
}

func run(dir string, timeout time.Duration, name string, args ...string) ([]byte, error) {
	cmd := exec.Command(name, args...)
	if b := filepath.Base(name); (b == "bgp.test" || b == "cfg.test") && os.Getenv("VERIF_NO_MEMLIMIT") == "" {
		// engine processes get an address space limit: a DUT that allocates what its input claims
		// (C27) dies with "out of memory" (reported as a crash of the run) instead of taking the
		// machine down. Not for the race build: the race detector reserves terabytes of shadow memory.
		sh := `ulimit -v 4000000 2>/dev/null; exec "$0" "$@"`
		cmd = exec.Command("/bin/bash", append([]string{"-c", sh, name}, args...)...)
	}
	cmd.Dir = dir
	cmd.Env = baseEnv()
	var buf bytes.Buffer
	cmd.Stdout = &buf
	cmd.Stderr = &buf
	if err := cmd.Start(); err != nil {
		return nil, err
	}
	done := make(chan error, 1)
	go func() { done <- cmd.Wait() }()
	select {
	case err := <-done:
		return buf.Bytes(), err
	case <-time.After(timeout):
		cmd.Process.Kill()
		<-done
		return buf.Bytes(), fmt.Errorf("timeout after %v", timeout)
	}
}

func hashTree(h io.Writer, root string) {
	filepath.Walk(root, func(path string, info os.FileInfo, err error) error {
		if err != nil || info.IsDir() {
			return nil
		}
		rel, _ := filepath.Rel(root, path)
		if strings.HasSuffix(path, ".test") || strings.HasSuffix(path, "go.sum") {
			return nil
		}
		b, err := os.ReadFile(path)
		if err != nil {
			return nil
		}
		fmt.Fprintf(h, "%s %d\n", rel, len(b))
		h.Write(b)
		return nil
	})
}

// hashRepo hashes every Go source and go.mod/go.sum of the bio-rd working tree, so that any
// edit (also to files the instrumenter does not rewrite) leads to a fresh engine build.
func hashRepo(h io.Writer, root string) {
	filepath.Walk(root, func(path string, info os.FileInfo, err error) error {
		if err != nil {
			return nil
		}
		if info.IsDir() {
			if info.Name() == ".git" {
				return filepath.SkipDir
			}
			return nil
		}
		if !strings.HasSuffix(path, ".go") && info.Name() != "go.mod" && info.Name() != "go.sum" {
			return nil
		}
		b, err := os.ReadFile(path)
		if err != nil {
			return nil
		}
		rel, _ := filepath.Rel(root, path)
		fmt.Fprintf(h, "%s %d\n", rel, len(b))
		h.Write(b)
		return nil
	})
}

// build instruments the current /repo tree and builds the engine test binary.
// It returns the path of the binary.
func build(engine string, race bool) string {
	buildRoot := filepath.Join(verifDir, ".build")
	os.MkdirAll(buildRoot, 0o755)
	gen := filepath.Join(buildRoot, fmt.Sprintf("gen-%d", os.Getpid()))
	os.RemoveAll(gen)
	if out, err := run(verifDir, 5*time.Minute, filepath.Join(verifDir, "bin", "simgen"), "-repo", repoDir(), "-out", gen); err != nil {
		os.RemoveAll(gen)
		infra("simgen failed (cannot instrument the current tree): %v\n%s", err, out)
	}
	h := sha256.New()
	hashTree(h, filepath.Join(gen, "src"))
	hashRepo(h, repoDir())
	fmt.Fprintf(h, "repo=%s\n", repoDir())
	hashTree(h, filepath.Join(verifDir, "harness"))
	hashTree(h, filepath.Join(verifDir, "simrt"))
	hashTree(h, filepath.Join(verifDir, "overlay"))
	key := hex.EncodeToString(h.Sum(nil))[:16]
	dir := filepath.Join(buildRoot, "k-"+key)
	if _, err := os.Stat(dir); err == nil {
		os.RemoveAll(gen)
	} else {
		ob, err := os.ReadFile(filepath.Join(gen, "overlay.json"))
		if err != nil {
			infra("no overlay.json: %v", err)
		}
		ob = bytes.ReplaceAll(ob, []byte(gen), []byte(dir))
		os.WriteFile(filepath.Join(gen, "overlay.json"), ob, 0o644)
		if err := os.Rename(gen, dir); err != nil {
			os.RemoveAll(gen)
			if _, err2 := os.Stat(dir); err2 != nil {
				infra("cannot create build dir: %v", err)
			}
		}
	}
	pruneBuilds(buildRoot, dir)
	name := engine + ".test"
	if race {
		name = engine + ".race.test"
	}
	bin := filepath.Join(dir, name)
	if _, err := os.Stat(bin); err == nil {
		return bin
	}
	hdir := filepath.Join(verifDir, "harness")
	if _, err := os.Stat(filepath.Join(hdir, "go.sum")); err != nil {
		if b, err := os.ReadFile("/repo/go.sum"); err == nil {
			os.WriteFile(filepath.Join(hdir, "go.sum"), b, 0o644)
		}
	}
	tmp := bin + fmt.Sprintf(".tmp%d", os.Getpid())
	if engine == "cfg" {
		// cfgsim: the engine is a test binary of bio-rd's own package main (cmd/bio-rd), whose
		// test file comes from the overlay; bio-rd is the main module, the harness a dependency
		gm, err := os.ReadFile(filepath.Join(repoDir(), "go.mod"))
		if err != nil {
			infra("cannot read %s/go.mod: %v", repoDir(), err)
		}
		gm = append(gm, []byte("\nrequire (\n\tverif.local/harness v0.0.0\n\tverif.local/simrt v0.0.0\n)\n\nreplace verif.local/harness => "+hdir+"\n\nreplace verif.local/simrt => "+filepath.Join(verifDir, "simrt")+"\n")...)
		os.WriteFile(filepath.Join(dir, "cfg.go.mod"), gm, 0o644)
		var sum []byte
		for _, f := range []string{filepath.Join(repoDir(), "go.sum"), filepath.Join(hdir, "go.sum")} {
			if b, err := os.ReadFile(f); err == nil {
				sum = append(append(sum, b...), '\n')
			}
		}
		os.WriteFile(filepath.Join(dir, "cfg.go.sum"), sum, 0o644)
		args := []string{"test", "-c", "-tags", "verif", "-overlay=" + filepath.Join(dir, "overlay.json"), "-modfile=" + filepath.Join(dir, "cfg.go.mod"), "-o", tmp, "./cmd/bio-rd"}
		if out, err := run(repoDir(), 20*time.Minute, filepath.Join(goBin, "go"), args...); err != nil {
			os.Remove(tmp)
			infra("cfgsim engine build failed (the tree, the accessors or the in-package test do not compile): %v\n%s", err, tail(out, 4000))
		}
		os.Rename(tmp, bin)
		return bin
	}
	args := []string{"test", "-c", "-tags", "verif", "-overlay=" + filepath.Join(dir, "overlay.json"), "-o", tmp}
	if repoDir() != "/repo" {
		// internal use (validation of seeded changes on a scratch copy, in parallel with other work):
		// the same harness module with bio-rd replaced by the copy
		gm, err := os.ReadFile(filepath.Join(hdir, "go.mod"))
		if err != nil {
			infra("cannot read harness/go.mod: %v", err)
		}
		gm = bytes.ReplaceAll(gm, []byte("=> /repo"), []byte("=> "+repoDir()))
		gm = bytes.ReplaceAll(gm, []byte("=> ../simrt"), []byte("=> "+filepath.Join(verifDir, "simrt")))
		os.WriteFile(filepath.Join(dir, "go.mod"), gm, 0o644)
		if b, err := os.ReadFile(filepath.Join(repoDir(), "go.sum")); err == nil {
			os.WriteFile(filepath.Join(dir, "go.sum"), b, 0o644)
		}
		args = append(args, "-modfile="+filepath.Join(dir, "go.mod"))
	}
	if race {
		// product code is instrumented; the simulator runtime and the harness are not (and are not
		// inlined into instrumented callers), see simrt/lock_race.go
		args = append(args, "-race", "-gcflags=verif.local/simrt=-race=false -l", "-gcflags=verif.local/harness/"+engine+"=-race=false -l")
	}
	args = append(args, "./"+engine)
	if out, err := run(hdir, 20*time.Minute, filepath.Join(goBin, "go"), args...); err != nil {
		os.Remove(tmp)
		infra("engine build failed (the instrumented tree or the accessors do not compile): %v\n%s", err, tail(out, 4000))
	}
	os.Rename(tmp, bin)
	return bin
}

func pruneBuilds(root, keep string) {
	ents, _ := os.ReadDir(root)
	type e struct {
		p string
		t time.Time
	}
	var ks []e
	for _, d := range ents {
		p := filepath.Join(root, d.Name())
		if strings.HasPrefix(d.Name(), "k-") && p != keep {
			if fi, err := d.Info(); err == nil {
				ks = append(ks, e{p, fi.ModTime()})
			}
		}
		if strings.HasPrefix(d.Name(), "gen-") || strings.HasPrefix(d.Name(), "run-") {
			if fi, err := d.Info(); err == nil && time.Since(fi.ModTime()) > 2*time.Hour {
				os.RemoveAll(p)
			}
		}
	}
	sort.Slice(ks, func(i, j int) bool { return ks[i].t.After(ks[j].t) })
	for i, k := range ks {
		if i >= 3 {
			os.RemoveAll(k.p)
		}
	}
}

func tail(b []byte, n int) string {
	if len(b) > n {
		b = b[len(b)-n:]
	}
	return string(b)
}

type batch struct {
	from, n int
}

type crash struct {
	Index  int    `json:"index"`
	Seed   uint64 `json:"seed"`
	Stderr string `json:"stderr"`
}

type collector struct {
	mu       sync.Mutex
	results  []outLine
	crashes  []crash
	timeouts int
}

func readLines(path string) []outLine {
	f, err := os.Open(path)
	if err != nil {
		return nil
	}
	defer f.Close()
	var out []outLine
	sc := bufio.NewScanner(f)
	sc.Buffer(make([]byte, 1<<20), 64<<20)
	for sc.Scan() {
		var l outLine
		if json.Unmarshal(sc.Bytes(), &l) == nil {
			out = append(out, l)
		}
	}
	return out
}

// runBatch executes runs [from, from+n) in one or more processes (restarting after a crash).
func runBatch(bin, prop string, seed uint64, b batch, work string, perRun time.Duration, col *collector, extra []string) {
	from, end := b.from, b.from+b.n
	attempt := 0
	for from < end {
		attempt++
		out := filepath.Join(work, fmt.Sprintf("b%06d-%d.jsonl", b.from, attempt))
		os.Remove(out)
		args := []string{"-test.run", "^TestProp$", "-test.cpu", "1", "-test.timeout", "0", "-prop", prop,
			"-seed", strconv.FormatUint(seed, 10), "-from", strconv.Itoa(from), "-runs", strconv.Itoa(end - from), "-out", out}
		args = append(args, extra...)
		timeout := time.Duration(end-from)*perRun + 30*time.Second
		stdout, err := run(work, timeout, bin, args...)
		lines := readLines(out)
		col.mu.Lock()
		lastStart := -1
		var lastSeed uint64
		done := map[int]bool{}
		for _, l := range lines {
			if l.Kind == "start" {
				lastStart, lastSeed = l.Index, l.Seed
			} else if l.Kind == "result" {
				done[l.Index] = true
				col.results = append(col.results, l)
			}
		}
		col.mu.Unlock()
		if err == nil {
			return
		}
		// crashed or timed out: the last started run without a result is the culprit
		if lastStart >= 0 && !done[lastStart] {
			col.mu.Lock()
			col.crashes = append(col.crashes, crash{Index: lastStart, Seed: lastSeed, Stderr: tail(stdout, 6000)})
			if strings.Contains(err.Error(), "timeout") {
				col.timeouts++
			}
			col.mu.Unlock()
			from = lastStart + 1
		} else if lastStart < 0 {
			col.mu.Lock()
			col.crashes = append(col.crashes, crash{Index: -1, Stderr: "engine did not start: " + err.Error() + "\n" + tail(stdout, 3000)})
			col.mu.Unlock()
			return
		} else {
			from = lastStart + 1
		}
		if attempt > 20 {
			return
		}
	}
}

func loadKnown() []knownFinding {
	b, err := os.ReadFile(filepath.Join(verifDir, "findings", "known_findings.json"))
	if err != nil {
		return nil
	}
	var doc struct {
		Findings []knownFinding `json:"findings"`
	}
	if err := json.Unmarshal(b, &doc); err != nil {
		infra("findings/known_findings.json does not parse: %v", err)
	}
	for i := range doc.Findings {
		if doc.Findings[i].DetailRegex != "" {
			doc.Findings[i].re = regexp.MustCompile(doc.Findings[i].DetailRegex)
		}
	}
	return doc.Findings
}

func matchKnown(kf []knownFinding, prop, assertion, detail string) *knownFinding {
	for i := range kf {
		k := &kf[i]
		if k.Status != "open" || k.Property != prop || k.Assertion != assertion {
			continue
		}
		if k.re != nil && !k.re.MatchString(detail) {
			continue
		}
		return k
	}
	return nil
}

type replayFile struct {
	Property    string          `json:"property"`
	Assertion   string          `json:"assertion"`
	Seed        uint64          `json:"seed"`
	Detail      string          `json:"detail"`
	Minimised   bool            `json:"minimised"`
	ShrinkRuns  int             `json:"shrink_runs,omitempty"`
	ReplayExact bool            `json:"replay_exact"`
	ReplayRate  string          `json:"replay_rate,omitempty"` // race build: reproductions / attempts
	Plan        json.RawMessage `json:"plan"`
	Trace       []string        `json:"trace,omitempty"`
}

// replayOnce runs a plan file in a fresh process and returns the result.
func replayOnce(bin, work, planFile string, extra ...string) (*outLine, string) {
	out := filepath.Join(work, fmt.Sprintf("replay-%d.jsonl", time.Now().UnixNano()))
	args := append([]string{"-test.run", "^TestProp$", "-test.cpu", "1", "-test.timeout", "0", "-replay", planFile, "-out", out}, extra...)
	stdout, err := run(work, 10*time.Minute, bin, args...)
	lines := readLines(out)
	os.Remove(out)
	for i := range lines {
		if lines[i].Kind == "result" || lines[i].Kind == "shrunk" {
			return &lines[i], ""
		}
	}
	msg := tail(stdout, 4000)
	if err != nil {
		msg = err.Error() + "\n" + msg
	}
	return nil, msg
}

func hasAssertion(r *runResult, a string) (violation, bool) {
	if r == nil {
		return violation{}, false
	}
	for _, v := range r.Violations {
		if v.Assertion == a {
			return v, true
		}
	}
	return violation{}, false
}

func main() {
	if len(os.Args) < 2 {
		fmt.Fprintln(os.Stderr, "usage: vcheck <property>|selftest [--tier quick|thorough] [--seed N] [--runs N] [--replay file]")
		os.Exit(2)
	}
	prop := os.Args[1]
	fs := flag.NewFlagSet("vcheck", flag.ExitOnError)
	tier := fs.String("tier", "", "quick | thorough")
	seedF := fs.Uint64("seed", 0, "seed (default VERIF_SEED or 1)")
	runsF := fs.Int("runs", 0, "override the number of runs")
	replayF := fs.String("replay", "", "replay file")
	workers := fs.Int("workers", runtime.NumCPU(), "parallel engine processes")
	budget := fs.Duration("budget", 0, "wall-clock budget for launching batches")
	noEvidence := fs.Bool("no-evidence", false, "do not write the evidence file (development)")
	fs.Parse(os.Args[2:])
	if *tier == "" {
		*tier = os.Getenv("VERIF_TIER")
	}
	if *tier == "" {
		*tier = "quick"
	}
	seed := *seedF
	if seed == 0 {
		if s := os.Getenv("VERIF_SEED"); s != "" {
			if v, err := strconv.ParseUint(s, 10, 64); err == nil {
				seed = v
			}
		}
	}
	if seed == 0 {
		seed = 1
	}
	if prop == "selftest" {
		selftest(seed, *runsF)
		return
	}
	info, ok := props[prop]
	if !ok {
		infra("unknown property %q", prop)
	}
	start := time.Now()
	fmt.Printf("vcheck %s tier=%s VERIF_SEED=%d\n", prop, *tier, seed)
	bin := build(info.Engine, info.Race)
	work := filepath.Join(verifDir, ".build", fmt.Sprintf("run-%s-%d", prop, os.Getpid()))
	os.MkdirAll(work, 0o755)
	workDirs = append(workDirs, work)
	defer os.RemoveAll(work)

	if *replayF != "" {
		code := doReplay(bin, work, prop, *replayF)
		cleanup()
		os.Exit(code)
	}

	total := info.Quick
	if *tier == "thorough" {
		total = info.Thorough
	}
	if *runsF > 0 {
		total = *runsF
	}
	bs := info.BatchSize
	if bs == 0 {
		bs = 40
	}
	perRun := info.PerRunTimeout
	if perRun == 0 {
		perRun = 20 * time.Second
	}
	var batches []batch
	for from := 0; from < total; from += bs {
		n := bs
		if from+n > total {
			n = total - from
		}
		batches = append(batches, batch{from, n})
	}
	col := &collector{}
	var wg sync.WaitGroup
	ch := make(chan batch)
	deadline := time.Time{}
	if *budget > 0 {
		deadline = start.Add(*budget)
	}
	for i := 0; i < *workers; i++ {
		wg.Add(1)
		go func() {
			defer wg.Done()
			for b := range ch {
				var extra []string
				if b.from == 0 {
					extra = []string{"-sampleplans", "3"}
				}
				runBatch(bin, prop, seed, b, work, perRun, col, extra)
			}
		}()
	}
	launched := 0
	for _, b := range batches {
		if !deadline.IsZero() && time.Now().After(deadline) {
			break
		}
		ch <- b
		launched += b.n
	}
	close(ch)
	wg.Wait()

	// determinism recheck: re-execute a sample of runs in a fresh process and compare traces
	nre := 4
	if *tier == "thorough" {
		nre = 24
	}
	if nre > total {
		nre = total
	}
	recol := &collector{}
	runBatch(bin, prop, seed, batch{0, nre}, work, perRun, recol, nil)
	first := map[int]string{}
	for _, l := range col.results {
		if l.Index < nre && l.Result != nil {
			first[l.Index] = l.Result.TraceHash
		}
	}
	identical, rechecked := 0, 0
	var nondet, retried []int
	for _, l := range recol.results {
		if l.Result == nil {
			continue
		}
		if h, ok := first[l.Index]; ok {
			rechecked++
			if h == l.Result.TraceHash {
				identical++
				continue
			}
			// a busy machine can make the Go runtime preempt a goroutine (sysmon, after 10 ms of wall
			// time) and so change who runs first among goroutines woken together (DESIGN.md 12.5a):
			// the run is executed up to three more times, same process history; it counts as
			// reproduced if the first trace shows up again, and is listed as retried
			again := false
			seen := map[string]int{l.Result.TraceHash: 1}
			for k := 0; k < 3 && !again && !info.Race; k++ {
				rc := &collector{}
				runBatch(bin, prop, seed, batch{0, l.Index + 1}, work, perRun, rc, nil)
				for _, x := range rc.results {
					if x.Index == l.Index && x.Result != nil {
						seen[x.Result.TraceHash]++
						// the first trace shows up again, or the re-executions agree among themselves
						// (then it was the first execution, inside the loaded batch, that was perturbed)
						if x.Result.TraceHash == h || seen[x.Result.TraceHash] >= 2 {
							again = true
						}
					}
				}
			}
			if again {
				identical++
				retried = append(retried, l.Index)
			} else {
				nondet = append(nondet, l.Index)
			}
		}
	}

	// ---- aggregate
	known := loadKnown()
	evals := 0
	shapes := map[string]bool{}
	faults := map[string]int{}
	probes := map[string]int{}
	var simNS int64
	var events, tieShuffles, mapShuffles, lockContended, schedChoices, ambiguous float64
	interleavings := map[string]bool{}
	var samples []any
	type vio struct {
		line outLine
		v    violation
	}
	byAssertion := map[string][]vio{}
	inconclusive := 0
	for _, l := range col.results {
		r := l.Result
		if r == nil {
			continue
		}
		evals++
		if r.Nontrivial {
			shapes[r.ShapeHash] = true
		}
		for k, v := range r.Faults {
			faults[k] += v
		}
		for k, v := range r.Probes {
			probes[k] += v
		}
		simNS += r.SimTimeNS
		inconclusive += r.Inconclusive
		if st := r.Stats; st != nil {
			events += num(st["Events"])
			tieShuffles += num(st["TieShuffles"])
			mapShuffles += num(st["MapShuffles"])
			lockContended += num(st["LockContended"])
			schedChoices += num(st["SchedChoices"])
			ambiguous += num(st["AmbiguousKeys"])
			if h := num(st["ScheduleHash"]); h != 0 {
				interleavings[fmt.Sprint(st["ScheduleHash"])] = true
			}
		}
		interleavings[r.TraceHash] = true
		if len(samples) < 3 && len(l.Plan) > 0 && len(r.Violations) == 0 {
			samples = append(samples, abridge(l.Plan))
		}
		if r.Panic != "" {
			v := violation{Prop: prop, Assertion: "harness_or_oracle_panic", Detail: firstLines(r.Panic, 12)}
			byAssertion[v.Assertion] = append(byAssertion[v.Assertion], vio{l, v})
		}
		seen := map[string]bool{}
		for _, v := range r.Violations {
			if seen[v.Assertion] {
				continue
			}
			seen[v.Assertion] = true
			byAssertion[v.Assertion] = append(byAssertion[v.Assertion], vio{l, v})
		}
	}
	if evals == 0 {
		msg := ""
		for _, c := range col.crashes {
			msg += c.Stderr + "\n"
		}
		infra("no run completed\n%s", tail([]byte(msg), 4000))
	}

	exit := 0
	var knownHit []string
	var reported []string
	var unreproduced []string
	// crashes
	for _, c := range col.crashes {
		if c.Index < 0 {
			infra("%s", c.Stderr)
		}
		// a crash of the device under test under a property's workload violates that property
		// (nothing holds for a daemon that died); known crashes are matched through their summary
		v := violation{Prop: prop, Assertion: "dut_crash", Detail: crashSummary(c.Stderr)}
		l := outLine{Index: c.Index, Seed: c.Seed}
		if len(byAssertion["dut_crash"]) < 3 {
			// the run did not finish, so its plan was never emitted: regenerate it from the index
			pf := filepath.Join(work, fmt.Sprintf("plan-%d.jsonl", c.Index))
			run(work, 2*time.Minute, bin, "-test.run", "^TestProp$", "-test.cpu", "1", "-prop", prop, "-seed", strconv.FormatUint(seed, 10),
				"-from", strconv.Itoa(c.Index), "-runs", "1", "-planonly", "-out", pf)
			for _, pl := range readLines(pf) {
				if pl.Kind == "plan" {
					l.Plan = pl.Plan
				}
			}
		}
		byAssertion["dut_crash"] = append(byAssertion["dut_crash"], vio{l, v})
	}
	var assertions []string
	for a := range byAssertion {
		assertions = append(assertions, a)
	}
	sort.Strings(assertions)
	os.MkdirAll(replayDir(), 0o755)
	for _, a := range assertions {
		vs := byAssertion[a]
		// split into known and unknown by the matcher
		var unknown []vio
		hits := map[string]int{}
		for _, x := range vs {
			if k := matchKnown(known, prop, a, x.v.Detail); k != nil {
				hits[k.ID]++
			} else {
				unknown = append(unknown, x)
			}
		}
		var ids []string
		for id := range hits {
			ids = append(ids, id)
		}
		sort.Strings(ids)
		for _, id := range ids {
			for _, k := range known {
				if k.ID == id {
					line := fmt.Sprintf("KNOWN-FINDING: property=%s %s [%s; %d runs]", prop, k.Summary, k.ID, hits[id])
					fmt.Println(line)
					knownHit = append(knownHit, fmt.Sprintf("%s (%d runs)", id, hits[id]))
				}
			}
		}
		if len(unknown) == 0 {
			continue
		}
		// report: confirm and minimise the smallest failing plan
		sort.SliceStable(unknown, func(i, j int) bool {
			li, lj := len(unknown[i].line.Plan), len(unknown[j].line.Plan)
			if li == 0 {
				li = 1 << 30
			}
			if lj == 0 {
				lj = 1 << 30
			}
			return li < lj
		})
		x := unknown[0]
		// a violation is reported with a replay file that reproduces it: the observed plans are
		// re-executed in fresh processes (smallest first) until one fails the same way again
		if a != "dut_crash" && a != "harness_or_oracle_panic" && !info.Race {
			confirmed := -1
			for ci := 0; ci < len(unknown) && ci < 5 && confirmed < 0; ci++ {
				if len(unknown[ci].line.Plan) == 0 {
					continue
				}
				tmp := filepath.Join(work, fmt.Sprintf("confirm-%s-%d.json", fileSafe(a), ci))
				b, _ := json.Marshal(replayFile{Property: prop, Assertion: a, Seed: unknown[ci].line.Seed, Detail: unknown[ci].v.Detail, Plan: unknown[ci].line.Plan})
				os.WriteFile(tmp, b, 0o644)
				for k := 0; k < 2 && confirmed < 0; k++ {
					if r, _ := replayOnce(bin, work, tmp); r != nil && r.Result != nil {
						if _, ok := hasAssertion(r.Result, a); ok {
							confirmed = ci
						}
					}
				}
			}
			if confirmed < 0 {
				line := fmt.Sprintf("assertion %s was raised in %d run(s) (first: %s) but none of the plans fails again when it is re-executed in a fresh process", a, len(unknown), oneLine(x.v.Detail, 300))
				fmt.Printf("vcheck %s: WARNING: UNREPRODUCED %s\n", prop, line)
				unreproduced = append(unreproduced, line)
				continue
			}
			x = unknown[confirmed]
		}
		path := reportViolation(bin, work, prop, a, x.line, x.v, *tier)
		// after minimisation the detail may have changed: re-classify once
		if rf := readReplay(path); rf != nil {
			if k := matchKnown(known, prop, a, rf.Detail); k != nil && x.v.Assertion != "dut_crash" {
				fmt.Printf("KNOWN-FINDING: property=%s %s [%s; minimised replay matches]\n", prop, k.Summary, k.ID)
				knownHit = append(knownHit, k.ID)
				continue
			}
		}
		fmt.Printf("VIOLATION property=%s replay=%s\n", prop, path)
		fmt.Printf("  assertion=%s runs=%d first: %s\n", a, len(unknown), oneLine(x.v.Detail, 600))
		reported = append(reported, a)
		exit = 1
	}

	wall := time.Since(start).Seconds()
	if !*noEvidence {
		cov := map[string]any{
			"evaluations":         evals,
			"distinct_nontrivial": len(shapes),
			"rule": "each evaluation is one simulated run of the real bio-rd code under a plan (topology, session options, timed steps, faults, simulator options) generated from VERIF_SEED and the run index; " +
				"a run is non-trivial when the DUT exchanged messages beyond the handshake and at least one fault or scheduling alternative (same-instant tie shuffle, map-order shuffle, gate choice) actually fired; distinct = distinct shape hashes (step kinds, fault kinds fired, probes hit, per-connection message type sequences, final views). " + info.Rule,
			"samples":                   samples,
			"runs_per_hour":             int(float64(evals) / wall * 3600),
			"sim_time_s":                float64(simNS) / 1e9,
			"faults_fired":              faults,
			"probes":                    probes,
			"sim_events":                int64(events),
			"same_instant_tie_shuffles": int64(tieShuffles),
			"map_order_shuffles":        int64(mapShuffles),
			"lock_contended":            int64(lockContended),
			"gate_schedule_choices":     int64(schedChoices),
			"interleavings":             len(interleavings),
			"interleavings_measure":     "distinct canonical-trace hashes (every DUT write with simulated time, connection and content) plus distinct gate-schedule hashes",
			"unlabelled_map_keys":       int64(ambiguous),
			"determinism":               map[string]any{"seeds_rechecked": rechecked, "identical": identical, "diverged_indices": nondet, "reproduced_only_on_retry": retried},
			"aborted_by_crash":          len(col.crashes),
			"inconclusive":              inconclusive,
			"known_findings_hit":        knownHit,
			"reported_assertions":       reported,
			"unreproduced_observations": unreproduced,
			"real_components":           componentsOf(prop, true),
			"stub_components":           componentsOf(prop, false),
			"seeds":                     fmt.Sprintf("VERIF_SEED=%d, run indices 0..%d", seed, launched-1),
		}
		ev := map[string]any{
			"property_id": prop,
			"tier":        *tier,
			"seed":        seed,
			"level":       "exploration",
			"coverage":    cov,
			"assumptions": append(append([]string{}, stdAssumptions...), info.Assumptions...),
			"wall_s":      wall,
			"violations":  len(reported),
		}
		b, _ := json.MarshalIndent(ev, "", " ")
		os.MkdirAll(filepath.Join(verifDir, "evidence"), 0o755)
		os.WriteFile(filepath.Join(verifDir, "evidence", prop+".json"), b, 0o644)
	}
	fmt.Printf("vcheck %s: %d runs, %d distinct non-trivial shapes, %.0f simulated s, %d crashes, determinism %d/%d, wall %.1fs, exit %d\n",
		prop, evals, len(shapes), float64(simNS)/1e9, len(col.crashes), identical, rechecked, wall, exit)
	if len(nondet) > 0 && info.Race {
		fmt.Printf("vcheck %s: note: run indices %v took another interleaving in a second process (the Go runtime randomises wake-ups under the race detector; see DESIGN.md, C26)\n", prop, nondet)
	} else if len(nondet) > 0 {
		fmt.Printf("vcheck %s: WARNING: run indices %v did not reproduce their trace in a second process\n", prop, nondet)
	}
	if len(retried) > 0 {
		fmt.Printf("vcheck %s: note: run indices %v reproduced their trace only when re-executed again (busy machine, see DESIGN.md 12.5a)\n", prop, retried)
	}
	cleanup()
	os.Exit(exit)
}

func num(v any) float64 {
	switch x := v.(type) {
	case float64:
		return x
	case int:
		return float64(x)
	}
	return 0
}

func oneLine(s string, n int) string {
	s = strings.ReplaceAll(s, "\n", " | ")
	if len(s) > n {
		s = s[:n] + "..."
	}
	return s
}

func firstLines(s string, n int) string {
	ls := strings.Split(s, "\n")
	if len(ls) > n {
		ls = ls[:n]
	}
	return strings.Join(ls, "\n")
}

// crashSummary extracts the panic message and the first product frames.
func crashSummary(stderr string) string {
	i := strings.Index(stderr, "panic:")
	if i < 0 {
		i = strings.Index(stderr, "fatal error:")
	}
	if i < 0 {
		return oneLine(tail([]byte(stderr), 600), 600)
	}
	return firstLines(stderr[i:], 14)
}

func abridge(plan json.RawMessage) any {
	var p map[string]any
	if json.Unmarshal(plan, &p) != nil {
		return string(plan)
	}
	if steps, ok := p["steps"].([]any); ok && len(steps) > 12 {
		p["steps"] = append(steps[:12:12], fmt.Sprintf("... %d more steps", len(steps)-12))
	}
	return p
}

func readReplay(path string) *replayFile {
	b, err := os.ReadFile(path)
	if err != nil {
		return nil
	}
	var rf replayFile
	if json.Unmarshal(b, &rf) != nil {
		return nil
	}
	return &rf
}

// fileSafe turns an assertion id into a file name component.
func fileSafe(a string) string {
	var sb strings.Builder
	for _, r := range a {
		switch {
		case r >= 'a' && r <= 'z', r >= 'A' && r <= 'Z', r >= '0' && r <= '9', r == '_', r == '-', r == '.':
			sb.WriteRune(r)
		default:
			sb.WriteByte('_')
		}
	}
	out := sb.String()
	if len(out) > 120 {
		h := sha256.Sum256([]byte(a))
		out = out[:100] + "-" + hex.EncodeToString(h[:4])
	}
	return out
}

// reportViolation confirms, minimises and writes the replay file of a violation.
func reportViolation(bin, work, prop, assertion string, l outLine, v violation, tier string) string {
	path := filepath.Join(replayDir(), fmt.Sprintf("%s-%s-%d.json", prop, fileSafe(assertion), l.Seed))
	rf := replayFile{Property: prop, Assertion: assertion, Seed: l.Seed, Detail: v.Detail, Plan: l.Plan}
	if len(l.Plan) == 0 {
		// crash without a plan line: regenerate the plan by index is not possible here; store what we know
		b, _ := json.MarshalIndent(rf, "", " ")
		os.WriteFile(path, b, 0o644)
		return path
	}
	tmp := filepath.Join(work, fmt.Sprintf("cand-%s-%d.json", fileSafe(assertion), l.Seed))
	b, _ := json.Marshal(rf)
	os.WriteFile(tmp, b, 0o644)
	if assertion != "dut_crash" && assertion != "harness_or_oracle_panic" {
		budget := "300"
		if tier == "thorough" {
			budget = "1200"
		}
		if props[prop].Race {
			budget = "90" // every candidate is a child process with up to three attempts
		}
		if sl, _ := replayOnce(bin, work, tmp, "-shrink", assertion, "-budget", budget); sl != nil && sl.Result != nil {
			if nv, ok := hasAssertion(sl.Result, assertion); ok {
				rf.Plan = sl.Plan
				rf.Detail = nv.Detail
				rf.Minimised = true
				rf.ShrinkRuns = sl.Index
				rf.Trace = sl.Result.Trace
			}
		}
	}
	// replay the (minimised) file twice in fresh processes: must fail the same way with the same trace
	b, _ = json.Marshal(rf)
	os.WriteFile(tmp, b, 0o644)
	if props[prop].Race {
		// race build: the Go runtime randomises wake-ups under the race detector, so a replay is the
		// same plan and the same seeded yields but not necessarily the same interleaving; the file
		// records how often the report came back
		n, hit := 12, 0
		for k := 0; k < n; k++ {
			if r, _ := replayOnce(bin, work, tmp); r != nil && r.Result != nil {
				if _, ok := hasAssertion(r.Result, assertion); ok {
					hit++
				}
			}
		}
		rf.ReplayRate = fmt.Sprintf("%d/%d", hit, n)
		rf.ReplayExact = hit == n
		b, _ = json.MarshalIndent(rf, "", " ")
		os.WriteFile(path, b, 0o644)
		return path
	}
	r1, _ := replayOnce(bin, work, tmp)
	r2, _ := replayOnce(bin, work, tmp)
	if r1 != nil && r2 != nil && r1.Result != nil && r2.Result != nil {
		_, ok1 := hasAssertion(r1.Result, assertion)
		_, ok2 := hasAssertion(r2.Result, assertion)
		rf.ReplayExact = ok1 && ok2 && r1.Result.TraceHash == r2.Result.TraceHash
	} else if assertion == "dut_crash" {
		rf.ReplayExact = r1 == nil && r2 == nil // both crashed again
	}
	b, _ = json.MarshalIndent(rf, "", " ")
	os.WriteFile(path, b, 0o644)
	return path
}

// doReplay replays a file in a fresh process; exit 1 if the violation reproduces.
func doReplay(bin, work, prop, file string) int {
	rf := readReplay(file)
	if rf == nil {
		infra("cannot read replay file %s", file)
	}
	if props[prop].Race && rf.Assertion != "dut_crash" {
		// race build: same plan and yields, interleaving partly up to the Go runtime; try a few times
		n := 40
		for k := 1; k <= n; k++ {
			l, _ := replayOnce(bin, work, file)
			if l == nil || l.Result == nil {
				continue
			}
			if v, ok := hasAssertion(l.Result, rf.Assertion); ok {
				fmt.Printf("VIOLATION property=%s replay=%s\n  assertion=%s (reproduced at attempt %d of at most %d): %s\n", prop, file, v.Assertion, k, n, v.Detail)
				return 1
			}
		}
		fmt.Printf("replay of %s: assertion %s did not fail in %d attempts\n", file, rf.Assertion, n)
		return 0
	}
	l, msg := replayOnce(bin, work, file)
	if l == nil {
		if rf.Assertion == "dut_crash" {
			fmt.Printf("VIOLATION property=%s replay=%s\n  the DUT crashed again:\n%s\n", prop, file, crashSummary(msg))
			return 1
		}
		infra("replay did not complete: %s", msg)
	}
	if v, ok := hasAssertion(l.Result, rf.Assertion); ok {
		fmt.Printf("VIOLATION property=%s replay=%s\n  assertion=%s step=%d t=%.6fs: %s\n  trace=%s\n", prop, file, v.Assertion, v.Step, float64(v.SimTimeNS)/1e9, v.Detail, l.Result.TraceHash)
		return 1
	}
	fmt.Printf("replay of %s: assertion %s did not fail (violations: %d)\n", file, rf.Assertion, len(l.Result.Violations))
	return 0
}

// selftest proves determinism: many seeds, several processes and worker counts, traces diffed.
func selftest(seed uint64, runs int) {
	if runs == 0 {
		runs = 40
	}
	bin := build("bgp", false)
	work := filepath.Join(verifDir, ".build", fmt.Sprintf("run-selftest-%d", os.Getpid()))
	os.MkdirAll(work, 0o755)
	workDirs = append(workDirs, work)
	defer os.RemoveAll(work)
	bad := 0
	for _, prop := range []string{"C20", "C07", "C10"} {
		ref := map[int]string{}
		for rep := 0; rep < 3; rep++ {
			for _, cpu := range []string{"1", "4", "16"} {
				out := filepath.Join(work, fmt.Sprintf("st-%s-%d-%s.jsonl", prop, rep, cpu))
				args := []string{"-test.run", "^TestProp$", "-test.cpu", cpu, "-test.timeout", "0", "-prop", prop,
					"-seed", strconv.FormatUint(seed, 10), "-from", "0", "-runs", strconv.Itoa(runs), "-out", out}
				run(work, 30*time.Minute, bin, args...)
				for _, l := range readLines(out) {
					if l.Kind != "result" || l.Result == nil {
						continue
					}
					if h, ok := ref[l.Index]; !ok {
						ref[l.Index] = l.Result.TraceHash
					} else if h != l.Result.TraceHash {
						bad++
						fmt.Printf("selftest: %s run %d differs (rep %d cpu %s): %s vs %s\n", prop, l.Index, rep, cpu, h, l.Result.TraceHash)
					}
				}
			}
		}
		fmt.Printf("selftest: %s %d seeds x 3 repetitions x 3 worker counts compared\n", prop, len(ref))
	}
	if bad > 0 {
		fmt.Printf("selftest: %d divergences\n", bad)
		os.Exit(2)
	}
	fmt.Println("selftest: all traces identical")
}

var workDirs []string

func cleanup() {
	for _, d := range workDirs {
		os.RemoveAll(d)
	}
}

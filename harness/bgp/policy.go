package bgp

import (
	"fmt"

	bnet "github.com/bio-routing/bio-rd/net"
	"github.com/bio-routing/bio-rd/routingtable/filter"
	"github.com/bio-routing/bio-rd/routingtable/filter/actions"
)

// Bounded policy language with an own reference interpreter.
// Semantics (documented in bio-rd's filter package): terms are evaluated in order; a term
// applies when it has no match or its route filter matches the prefix; its actions run in
// order; accept/reject ends evaluation; a chain in which nothing terminates accepts.

type MatchSpec struct {
	Pfx  Prefix `json:"pfx"`
	Kind string `json:"kind"` // exact | orlonger | longer | range
	Min  uint8  `json:"min,omitempty"`
	Max  uint8  `json:"max,omitempty"`
}

type ActionSpec struct {
	Kind string `json:"kind"` // accept | reject | lp | med | prepend | nh
	V    uint32 `json:"v,omitempty"`
	N    uint16 `json:"n,omitempty"`
}

type TermSpec struct {
	Match   *MatchSpec   `json:"match,omitempty"`
	Actions []ActionSpec `json:"actions"`
}

type PolicySpec struct {
	Terms []TermSpec `json:"terms"`
	// Split: the chain is built with one filter per term instead of one filter holding all terms
	// (same meaning: what a filter without a terminating action changed is handed to the next one)
	Split bool `json:"split,omitempty"`
}

func AcceptAll() *PolicySpec {
	return &PolicySpec{Terms: []TermSpec{{Actions: []ActionSpec{{Kind: "accept"}}}}}
}

func RejectAll() *PolicySpec {
	return &PolicySpec{Terms: []TermSpec{{Actions: []ActionSpec{{Kind: "reject"}}}}}
}

func (m *MatchSpec) matches(p Prefix) bool {
	if m == nil {
		return true
	}
	switch m.Kind {
	case "exact":
		return m.Pfx == p
	case "orlonger":
		return m.Pfx.Contains(p)
	case "longer":
		return m.Pfx.Contains(p) && p.Len > m.Pfx.Len
	case "range":
		return m.Pfx.Contains(p) && p.Len >= m.Min && p.Len <= m.Max
	}
	return false
}

func nhString(v uint32) string {
	return fmt.Sprintf("%d.%d.%d.%d", byte(v>>24), byte(v>>16), byte(v>>8), byte(v))
}

// Eval is the reference interpreter. A nil policy means bio-rd's default (reject all).
func (ps *PolicySpec) Eval(pfx Prefix, in CanonPath) (out CanonPath, reject bool) {
	out = in
	if ps == nil {
		return out, true
	}
	for _, t := range ps.Terms {
		if !t.Match.matches(pfx) {
			continue
		}
		for _, a := range t.Actions {
			switch a.Kind {
			case "accept":
				return out, false
			case "reject":
				return out, true
			case "lp":
				out.LocalPref = a.V
			case "med":
				out.MED = a.V
			case "nh":
				out.NextHop = nhString(a.V)
			case "prepend":
				out.ASPath = prependAS(out.ASPath, a.V, int(a.N))
			}
		}
	}
	return out, false
}

// prependAS prepends asn n times in front of the path (RFC 4271 5.1.2).
func prependAS(path []Segment, asn uint32, n int) []Segment {
	if n <= 0 {
		return path
	}
	cp := make([]Segment, len(path))
	for i, s := range path {
		cp[i] = Segment{Type: s.Type, ASNs: append([]uint32(nil), s.ASNs...)}
	}
	for i := 0; i < n; i++ {
		if len(cp) == 0 || cp[0].Type != 2 || len(cp[0].ASNs) >= 255 {
			cp = append([]Segment{{Type: 2}}, cp...)
		}
		cp[0].ASNs = append([]uint32{asn}, cp[0].ASNs...)
	}
	return cp
}

// Chain builds the bio-rd filter chain for the policy.
func (ps *PolicySpec) Chain() filter.Chain {
	if ps == nil {
		return nil
	}
	var terms []*filter.Term
	for i, t := range ps.Terms {
		var from []*filter.TermCondition
		if t.Match != nil {
			var m filter.PrefixMatcher
			switch t.Match.Kind {
			case "exact":
				m = filter.NewExactMatcher()
			case "orlonger":
				m = filter.NewOrLongerMatcher()
			case "longer":
				m = filter.NewLongerMatcher()
			default:
				m = filter.NewInRangeMatcher(t.Match.Min, t.Match.Max)
			}
			from = append(from, filter.NewTermConditionWithRouteFilters(filter.NewRouteFilter(ToBnetPrefix(t.Match.Pfx), m)))
		}
		var then []actions.Action
		for _, a := range t.Actions {
			switch a.Kind {
			case "accept":
				then = append(then, &actions.AcceptAction{})
			case "reject":
				then = append(then, &actions.RejectAction{})
			case "lp":
				then = append(then, actions.NewSetLocalPrefAction(a.V))
			case "med":
				then = append(then, actions.NewSetMEDAction(a.V))
			case "nh":
				ip := bnet.IPv4(a.V)
				then = append(then, actions.NewSetNextHopAction(&ip))
			case "prepend":
				then = append(then, actions.NewASPathPrependAction(a.V, a.N))
			}
		}
		terms = append(terms, filter.NewTerm(fmt.Sprintf("t%d", i), from, then))
	}
	if ps.Split && len(terms) > 1 {
		var c filter.Chain
		for i, t := range terms {
			c = append(c, filter.NewFilter(fmt.Sprintf("verif%d", i), []*filter.Term{t}))
		}
		return c
	}
	return filter.Chain{filter.NewFilter("verif", terms)}
}

// BehaviourallyEqual reports whether two policies treat all of the given sample routes alike.
func BehaviourallyEqual(a, b *PolicySpec, samples map[Prefix][]CanonPath) bool {
	for pfx, ps := range samples {
		for _, p := range ps {
			oa, ra := a.Eval(pfx, p)
			ob, rb := b.Eval(pfx, p)
			if ra != rb {
				return false
			}
			if !ra && oa.Key(false) != ob.Key(false) {
				return false
			}
		}
	}
	return true
}

package bgp

// C26: the RIB pipeline and the session layer are free of data races.
//
// This property runs on a separate build of the engine (vcheck builds it with -race):
//   - product code is race-instrumented and keeps its own synchronisation (the simulator
//     mutexes are real sync mutexes in this build);
//   - simrt and this harness are compiled without instrumentation and use locks the detector
//     cannot see, so the simulator adds no happens-before edge between product goroutines
//     except the ones a real deployment has too (a goroutine is started, a timer fires, bytes
//     arrive on a socket);
//   - GOMAXPROCS is 1 and asynchronous preemption is off: which goroutine runs is decided by
//     the deterministic run queue plus PRNG-chosen yields before product lock acquisitions
//     (simrt raceYield), so one seed is one schedule in practice;
//   - operations of a "par" step and the UPDATEs of that step arrive at the same simulated
//     instant and are released without a quiescence barrier between them (BatchInstant).
// The oracle is the Go race detector: every report written to GORACE's log_path during a
// run becomes a violation named after the unordered pair of product functions involved.

import (
	"bufio"
	"encoding/json"
	"fmt"
	"os"
	"os/exec"
	"path/filepath"
	"regexp"
	"sort"
	"strings"

	"verif.local/simrt"
)

const raceArrivalUS = 100

func genC26(seed uint64) *Plan {
	if seed%3 == 0 {
		pl := genC25T(seed)
		pl.Prop = "C26"
		pl.Sim.GateProb = pick(propRand("C26T", seed), []float64{0, 0.1, 0.3, 0.6})
		pl.Sim.BatchInstant = true
		return pl
	}
	pr := DefaultProfile()
	pr.MinPeers, pr.MaxPeers = 2, 4
	pr.AddPathTXProb = 0.3
	pr.AddPathRXProb = 0.3
	pr.ExportKinds = []string{"accept", "rewrite"}
	pr.AggrChoices = []int64{50_000, 100_000, 500_000}
	pr.HoldChoices = []uint16{90, 30, 3}
	pr.MinSteps, pr.MaxSteps = 2, 6
	pr.W = map[string]int{"announce": 10, "withdraw": 3}
	pr.BigGapProb = 0
	pr.FragmentProb = 0
	g := newGen("C26", seed, pr)
	r := g.r
	g.plan.Sim.GateProb = pick(r, []float64{0, 0.1, 0.3, 0.6}) // race build: probability of a yield before a lock
	g.plan.Sim.BatchInstant = true
	// timers (update sender, keepalive) due within the window fire together with the step's events
	g.plan.Sim.BatchWindowUS = pick(r, []int64{0, 1000, 20_000, 45_000})
	g.plan.Params = map[string]int64{"arrival_us": raceArrivalUS}
	for i := range g.plan.Peers {
		// everything sent in one step arrives at one instant
		g.plan.Peers[i].MinDelayUS, g.plan.Peers[i].JitterUS = raceArrivalUS, 0
	}
	g.connectAll()
	g.workload()
	rounds := 2 + r.Intn(5)
	for k := 0; k < rounds; k++ {
		var sub []Step
		n := 2 + r.Intn(4)
		for j := 0; j < n; j++ {
			pi := r.Intn(len(g.plan.Peers))
			switch r.Intn(12) {
			case 0, 1, 2:
				before := len(g.plan.Steps)
				g.stepAnnounce(pi)
				if len(g.plan.Steps) > before {
					st := g.plan.Steps[len(g.plan.Steps)-1]
					g.plan.Steps = g.plan.Steps[:before]
					st.GapUS, st.Chunks = 0, nil
					sub = append(sub, st)
				}
			case 3:
				before := len(g.plan.Steps)
				g.stepWithdraw(pi)
				st := g.plan.Steps[len(g.plan.Steps)-1]
				g.plan.Steps = g.plan.Steps[:before]
				st.GapUS, st.Chunks = 0, nil
				sub = append(sub, st)
			case 4:
				sub = append(sub, Step{Kind: "export", Peer: pi, Policy: g.genPolicy(pick(r, []string{"accept", "rewrite", "rejectsome", "reject"}))})
			case 5:
				sub = append(sub, Step{Kind: "import", Peer: pi, Policy: g.genPolicy(pick(r, []string{"accept", "rewrite", "rejectsome", "reject"}))})
			case 6, 7:
				sub = append(sub, Step{Kind: "metrics"})
			case 8, 9:
				sub = append(sub, Step{Kind: "dump_api", Peer: pi})
			case 10:
				switch r.Intn(4) {
				case 0:
					sub = append(sub, Step{Kind: "dispose", Peer: pi})
					g.connected[pi] = false
				case 1:
					sub = append(sub, Step{Kind: "peer_notify", Peer: pi, Code: 6, Sub: 2})
					g.connected[pi] = false
				case 2:
					sub = append(sub, Step{Kind: "static_add", Pfx: []Prefix{pick(r, g.staticPool())}, NH: 0x0a630001})
				default:
					sub = append(sub, Step{Kind: "peer_close", Peer: pi, On: true})
					g.connected[pi] = false
				}
			case 11:
				if !g.connected[pi] {
					sub = append(sub, Step{Kind: "connect", Peer: pi})
					g.connected[pi] = true
				} else {
					sub = append(sub, Step{Kind: "metrics"})
				}
			}
		}
		g.add(Step{GapUS: int64(1000 + r.Intn(300_000)), Kind: "par", Par: sub})
		if r.Chance(0.4) {
			for pi := range g.plan.Peers {
				if !g.connected[pi] && r.Chance(0.5) {
					g.add(Step{GapUS: 200_000, Kind: "connect", Peer: pi})
					g.connected[pi] = true
				}
			}
		}
	}
	g.add(Step{GapUS: 2_000_000, Kind: "checkpoint"})
	g.plan.TailUS = 5_000_000
	return g.plan
}

// ---- race reports

var raceLogOffset int64
var racesIgnoredInternal int

func raceLogFile() string {
	for _, f := range strings.Fields(os.Getenv("GORACE")) {
		if v, ok := strings.CutPrefix(f, "log_path="); ok {
			return fmt.Sprintf("%s.%d", v, os.Getpid())
		}
	}
	return ""
}

type raceAccess struct {
	Kind   string // read | write
	Site   string // first frame outside the standard library
	Func   string // first product frame
	Where  string
	Frames []string
}

type raceReport struct {
	A, B raceAccess
	Text string
}

var raceAccessRe = regexp.MustCompile(`^(Previous )?(atomic )?(read|write|Read|Write) at 0x[0-9a-f]+ by `)

const productPrefix = "github.com/bio-routing/bio-rd/"

func parseRaceReports(text string) []raceReport {
	var out []raceReport
	for _, sec := range strings.Split(text, "WARNING: DATA RACE")[1:] {
		if k := strings.Index(sec, "=================="); k >= 0 {
			sec = sec[:k]
		}
		lines := strings.Split(sec, "\n")
		var accs []raceAccess
		for i := 0; i < len(lines); i++ {
			m := raceAccessRe.FindStringSubmatch(strings.TrimSpace(lines[i]))
			if m == nil {
				continue
			}
			a := raceAccess{Kind: strings.ToLower(m[3])}
			for j := i + 1; j+1 < len(lines) && strings.TrimSpace(lines[j]) != ""; j += 2 {
				fn := strings.TrimSpace(lines[j])
				if k := strings.LastIndex(fn, "("); k > 0 {
					fn = fn[:k]
				}
				loc := strings.TrimSpace(lines[j+1])
				if k := strings.Index(loc, " +0x"); k > 0 {
					loc = loc[:k]
				}
				a.Frames = append(a.Frames, fn+" "+filepath.Base(loc))
				// (the generic body of simrt.Keys ranges over the product's map on the product's behalf)
				if first, _, _ := strings.Cut(fn, "/"); a.Site == "" && strings.Contains(first, ".") && strings.Contains(fn, "/") && !strings.HasPrefix(fn, "verif.local/simrt.Keys[") {
					a.Site = fn // first frame outside the standard library: the code that touched the memory
				}
				if a.Func == "" && strings.HasPrefix(fn, productPrefix) {
					a.Func = strings.TrimPrefix(fn, productPrefix)
					a.Where = filepath.Base(loc)
				}
			}
			if a.Func == "" && len(a.Frames) > 0 {
				a.Func = strings.Fields(a.Frames[0])[0]
			}
			accs = append(accs, a)
		}
		if len(accs) >= 2 {
			out = append(out, raceReport{A: accs[0], B: accs[1], Text: strings.TrimSpace(sec)})
		}
	}
	return out
}

// closureRe strips closure suffixes so that a report names the enclosing function.
var closureRe = regexp.MustCompile(`(\.func\d+|\.gowrap\d+|\.\d+)+$`)

func raceViolations(prop string) []Violation {
	path := raceLogFile()
	if path == "" {
		return nil
	}
	f, err := os.Open(path)
	if err != nil {
		return nil // no report so far
	}
	defer f.Close()
	f.Seek(raceLogOffset, 0)
	var sb strings.Builder
	rd := bufio.NewReader(f)
	for {
		b, err := rd.ReadString('\n')
		sb.WriteString(b)
		raceLogOffset += int64(len(b))
		if err != nil {
			break
		}
	}
	var out []Violation
	for _, r := range parseRaceReports(sb.String()) {
		// The runtime's map, slice, string and channel helpers report to the detector even when
		// their caller is not instrumented. The simulator's and the harness' own data is
		// protected by InternalLock, which the detector cannot see, so a pair of accesses that
		// both come from simulator/harness code is no product race.
		sa, sb2 := strings.HasPrefix(r.A.Site, "verif.local/"), strings.HasPrefix(r.B.Site, "verif.local/")
		if sa && sb2 {
			racesIgnoredInternal++
			continue
		}
		fa, fb := closureRe.ReplaceAllString(r.A.Func, ""), closureRe.ReplaceAllString(r.B.Func, "")
		pair := []string{fa, fb}
		sort.Strings(pair)
		v := Violation{Prop: prop, Assertion: "data_race:" + pair[0] + "|" + pair[1],
			Detail: fmt.Sprintf("%s in %s (%s) is not ordered with the %s in %s (%s); stacks: %s <-> %s",
				r.A.Kind, r.A.Func, r.A.Where, r.B.Kind, r.B.Func, r.B.Where, strings.Join(head(r.A.Frames, 6), " < "), strings.Join(head(r.B.Frames, 6), " < "))}
		if strings.Contains(fa, ".Verif") || strings.Contains(fb, ".Verif") || sa || sb2 {
			// an accessor of the harness took part: the harness, not bio-rd, is at fault
			v.Prop, v.Assertion = "HARNESS", "race_in_harness_accessor"
		}
		out = append(out, v)
	}
	return out
}

func head(s []string, n int) []string {
	if len(s) > n {
		return s[:n]
	}
	return s
}

// runInChild executes a plan in a fresh process (race build: the detector reports a pair of
// stacks once per process, so candidates of the shrinker cannot share a process).
func runInChild(plan *Plan) *RunResult {
	dir, err := os.MkdirTemp(".", "child-")
	if err != nil {
		return nil
	}
	defer os.RemoveAll(dir)
	pf, of := filepath.Join(dir, "plan.json"), filepath.Join(dir, "out.jsonl")
	b, _ := json.Marshal(ReplayFile{Plan: plan})
	os.WriteFile(pf, b, 0o644)
	cmd := exec.Command(os.Args[0], "-test.run", "^TestProp$", "-test.cpu", "1", "-test.timeout", "0", "-replay", pf, "-out", of)
	cmd.Env = append(os.Environ(), "GORACE=log_path="+filepath.Join(dir, "race"))
	cmd.Run()
	ob, err := os.ReadFile(of)
	if err != nil {
		return nil
	}
	for _, ln := range strings.Split(string(ob), "\n") {
		var l outLine
		if json.Unmarshal([]byte(ln), &l) == nil && l.Kind == "result" {
			return l.Result
		}
	}
	return nil
}

func init() {
	bgpProps["C26"] = propDef{Gen: genC26, Oracles: func(p *Plan) []Oracle {
		if p.Engine == "ribsim" {
			return []Oracle{&c25TOracle{}}
		}
		return nil
	}}
	_ = simrt.RaceMode
}

package bgp

import (
	"fmt"
	"sort"
	"strings"

	"github.com/bio-routing/bio-rd/route"
)

// PipelineOracle bundles the stage-wise oracles of the RIB pipeline. Each assertion is
// attributed to exactly one property; a check counts only its own property's assertions.
type PipelineOracle struct {
	Props map[string]bool // enabled properties (nil = all)

	// C20 reference Adj-RIB-In per peer: key -> expected attributes
	refIn []map[viewKey]CanonPath
	// tags labelled ineligible by the generator (C06), tag -> reason
	ineligible map[uint32]string
	// provenance: tag -> announcing peer index and attributes (C09)
	origin map[uint32]tagOrigin
	// C07: sessions that left established and the step at which that was noticed
	lastEst []bool
	estConn []*Conn
	// C11: ids announced per prefix per peer connection (from the wire)
	wireIDs []map[Prefix]map[uint32]string
	checkpoints int
	expNH, expPrepend []bool
	reest map[int]bool // peers whose session left Established at least once
}

type tagOrigin struct {
	Peer int
	Attr AttrSpec
	V6   bool
}

func (o *PipelineOracle) on(p string) bool { return o.Props == nil || o.Props[p] }

func (o *PipelineOracle) Init(w *World) {
	n := len(w.Peers)
	o.refIn = make([]map[viewKey]CanonPath, n)
	o.lastEst = make([]bool, n)
	o.estConn = make([]*Conn, n)
	o.wireIDs = make([]map[Prefix]map[uint32]string, n)
	o.ineligible = map[uint32]string{}
	o.origin = map[uint32]tagOrigin{}
	for i, p := range w.Peers {
		o.refIn[i] = map[viewKey]CanonPath{}
		o.wireIDs[i] = map[Prefix]map[uint32]string{}
		i := i
		p.onUpdate = func(p *Peer, c *Conn, u *Update, raw []byte) { o.onWire(w, i, p, c, u, raw) }
	}
	// export policies may legitimately override the session rewrites (next hop, further prepends)
	o.expNH = make([]bool, n)
	o.expPrepend = make([]bool, n)
	note := func(pi int, ps *PolicySpec) {
		if ps == nil || pi < 0 || pi >= n {
			return
		}
		for _, t := range ps.Terms {
			for _, a := range t.Actions {
				if a.Kind == "nh" {
					o.expNH[pi] = true
				}
				if a.Kind == "prepend" {
					o.expPrepend[pi] = true
				}
			}
		}
	}
	for i, pc := range w.Plan.Peers {
		note(i, pc.Export)
	}
	for _, s := range w.Plan.Steps {
		if s.Kind == "export" {
			note(s.Peer, s.Policy)
		}
	}
	// provenance is known from the plan up front
	for _, s := range w.Plan.Steps {
		if s.Kind == "announce" && s.Attr != nil {
			t := s.Attr.Tag()
			o.origin[t] = tagOrigin{Peer: s.Peer, Attr: *s.Attr, V6: s.V6}
			if s.Ineligible != "" {
				o.ineligible[t] = s.Ineligible
			}
		}
	}
}

// expectedStored is what the Adj-RIB-In must hold for an announcement (RFC 4271 9 / 7911 3).
func expectedStored(w *World, p *Peer, s *Step, id uint32) CanonPath {
	a := s.Attr.Attrs(s.V6)
	c := CanonFromAttrs(a, id)
	c.Source = p.Cfg.addrString()
	c.EBGP = p.Cfg.AS != w.Plan.DUT.LocalAS
	return c
}

func (o *PipelineOracle) AfterStep(w *World, i int, s *Step) {
	// session changes that happened since the last step are noticed before this step's
	// messages are applied to the reference
	o.trackSessions(w)
	switch s.Kind {
	case "announce", "withdraw":
		if s.Mutation != nil || s.Malformed != "" {
			break
		}
		o.applyToRefIn(w, s)
		if pp := w.peer(s.Peer); o.on("C20") && pp != nil && pp.conn != nil && pp.conn.pendingPeerTx == 0 {
			o.checkRefIn(w, s.Peer, "C20", "adj_rib_in_after_update")
		}
	case "checkpoint":
		o.checkpoint(w, false)
	}
	if o.on("C06") {
		o.checkIneligible(w, "after_step")
	}
	o.trackSessions(w)
}

// applyToRefIn updates the reference Adj-RIB-In NLRI by NLRI if the message reached an established session.
func (o *PipelineOracle) applyToRefIn(w *World, s *Step) {
	p := w.peer(s.Peer)
	if p == nil || p.conn == nil || !p.Established() {
		return
	}
	est, _ := w.DUT.EstablishedFSM(p)
	if est == nil || est.Con != p.conn {
		return
	}
	fam := famOf(est, s.V6)
	if fam == nil {
		return // family not configured: NLRI are ignored
	}
	_, ap := p.UpdateOpts(s.V6)
	for i, pfx := range s.Wd {
		// withdrawn routes of a mixed UPDATE (never the prefixes it announces)
		id := uint32(0)
		if ap && i < len(s.WdIDs) {
			id = s.WdIDs[i]
		}
		delete(o.refIn[s.Peer], viewKey{pfx, id})
	}
	for i, pfx := range s.Pfx {
		id := s.PathID
		if i < len(s.PathIDs) {
			id = s.PathIDs[i]
		}
		if !ap {
			id = 0
		}
		k := viewKey{pfx, id}
		if s.Kind == "withdraw" {
			delete(o.refIn[s.Peer], k)
		} else {
			o.refIn[s.Peer][k] = expectedStored(w, p, s, id)
		}
	}
}

// keyIn renders a stored path for Adj-RIB-In comparison. LOCAL_PREF defaulting on eBGP
// sessions (RFC 4271 5.1.5 leaves the value to local policy) is masked.
func keyIn(c CanonPath, ebgp bool) string {
	c.Hidden, c.Redist = 0, 0
	if ebgp {
		c.LocalPref = 0
	}
	return c.Key(true)
}

func (o *PipelineOracle) checkRefIn(w *World, pi int, prop, assertion string) {
	p := w.Peers[pi]
	est, _ := w.DUT.EstablishedFSM(p)
	if est == nil || !est.RibsInitialized {
		return
	}
	ebgp := p.Cfg.AS != w.Plan.DUT.LocalAS
	for _, v6 := range []bool{false, true} {
		fam := famOf(est, v6)
		if fam == nil || fam.AdjRIBIn == nil {
			continue
		}
		got := DumpRoutes(fam.AdjRIBIn.Dump())
		var gl, el []string
		for pfx, ps := range got {
			for _, c := range ps {
				gl = append(gl, fmt.Sprintf("%s %s", pfx, keyIn(c, ebgp)))
			}
		}
		for k, c := range o.refIn[pi] {
			if k.Pfx.V6 != v6 {
				continue
			}
			el = append(el, fmt.Sprintf("%s %s", k.Pfx, keyIn(c, ebgp)))
		}
		sort.Strings(gl)
		sort.Strings(el)
		missing, extra := DiffLines(el, gl)
		if len(missing)+len(extra) > 0 {
			w.Env.Violate(prop, assertion, "peer %s v6=%v: missing from Adj-RIB-In %v; unexpected in Adj-RIB-In %v", p.Cfg.Name, v6, missing, extra)
		}
	}
}

// trackSessions notices sessions that left Established (C07 bookkeeping and reference reset).
func (o *PipelineOracle) trackSessions(w *World) {
	for i, p := range w.Peers {
		est, _ := w.DUT.EstablishedFSM(p)
		now := est != nil
		if o.lastEst[i] && (!now || est.Con != o.estConn[i]) {
			// left established (possibly re-established on a new connection): reference restarts empty
			o.refIn[i] = map[viewKey]CanonPath{}
			o.wireIDs[i] = map[Prefix]map[uint32]string{}
			w.Env.probe("left_established")
			if o.on("C07") {
				o.checkTeardown(w, i, o.estConn[i])
			}
			if o.reest == nil {
				o.reest = map[int]bool{}
			}
			o.reest[i] = true
		}
		if now && o.reest[i] && (!o.lastEst[i] || est.Con != o.estConn[i]) {
			w.Env.probe("re_established")
		}
		o.lastEst[i] = now
		if now {
			o.estConn[i] = est.Con.(*Conn)
		}
	}
}

// checkTeardown: C07 at the first quiescent point after a session left Established.
func (o *PipelineOracle) checkTeardown(w *World, pi int, old *Conn) {
	p := w.Peers[pi]
	src := p.Cfg.addrString()
	est, _ := w.DUT.EstablishedFSM(p)
	reest := est != nil
	if !reest {
		for v6i, v6 := range []bool{false, true} {
			_ = v6i
			for pfx, ps := range w.DUT.LocRIBDump(v6) {
				for _, c := range ps {
					if c.Type == route.BGPPathType && c.Source == src {
						w.Env.Violate("C07", "route_survives_session", "peer %s left Established but Loc-RIB still holds %s %s", p.Cfg.Name, pfx, c.Key(true))
					}
				}
			}
		}
	}
	// loop-detection contribution: only checked through behaviour (see C07 profile: a path
	// with the local ASN must be accepted again once no session contributes that ASN) - the
	// refcount itself is read through the public VRF API.
	// Exact expectation at this quiescent point: an ASN / cluster ID contributes iff some
	// Established session brought it in (the session's local ASN; the cluster ID of a
	// route-reflector-client session).
	dut := w.Plan.DUT
	wantASN := map[uint32]bool{dut.LocalAS: false}
	cidOf := dut.ClusterID
	if cidOf == 0 {
		cidOf = dut.RouterID
	}
	wantCID := map[uint32]bool{cidOf: false, dut.RouterID: false}
	for _, q := range w.Peers {
		las := q.Cfg.LocalAS
		if las == 0 {
			las = dut.LocalAS
		}
		if _, seen := wantASN[las]; !seen {
			wantASN[las] = false
		}
		if e, _ := w.DUT.EstablishedFSM(q); e != nil {
			wantASN[las] = true
			if q.Cfg.RRClient {
				wantCID[cidOf] = true
			}
		}
	}
	for _, asn := range sortedU32(wantASN) {
		got := w.DUT.VRF.IsContributingASN(asn)
		if got && !wantASN[asn] {
			w.Env.Violate("C07", "asn_contribution_survives", "no Established session uses local ASN %d but it is still reported as contributing to loop detection", asn)
		}
		if !got && wantASN[asn] {
			w.Env.Violate("C07", "asn_contribution_lost", "an Established session uses local ASN %d but it no longer contributes to loop detection (another session's teardown withdrew it)", asn)
		}
	}
	for _, cid := range sortedU32(wantCID) {
		got := w.DUT.VRF.IsContributingClusterID(cid)
		if got && !wantCID[cid] {
			w.Env.Violate("C07", "cluster_contribution_survives", "no Established route-reflector-client session but cluster ID %d is still reported as contributing to loop detection", cid)
		}
		if !got && wantCID[cid] {
			w.Env.Violate("C07", "cluster_contribution_lost", "a route-reflector-client session is Established but cluster ID %d no longer contributes to loop detection", cid)
		}
	}
	if old != nil {
		w.Data[fmt.Sprintf("c07:oldconn:%d", pi)] = old
	}
}

// checkIneligible: C06 - no labelled tag anywhere downstream of the Adj-RIB-In.
func (o *PipelineOracle) checkIneligible(w *World, when string) {
	if len(o.ineligible) == 0 {
		return
	}
	for _, v6 := range []bool{false, true} {
		for pfx, ps := range w.DUT.LocRIBDump(v6) {
			for _, c := range ps {
				if why, bad := o.ineligible[c.Tag()]; bad {
					w.Env.Violate("C06", "ineligible_in_locrib", "%s: tag %d (%s) installed in Loc-RIB for %s: %s", when, c.Tag(), why, pfx, c.Key(true))
				}
			}
		}
	}
	for _, p := range w.Peers {
		for k, a := range p.View {
			c := CanonFromAttrs(a, k.PathID)
			if why, bad := o.ineligible[c.Tag()]; bad {
				w.Env.Violate("C06", "ineligible_advertised", "%s: tag %d (%s) advertised to %s for %s", when, c.Tag(), why, p.Cfg.Name, k.Pfx)
			}
		}
	}
}

func (o *PipelineOracle) Final(w *World) {
	o.checkpoint(w, true)
	if o.on("C07") {
		o.c07Final(w)
	}
}

// checkpoint runs the stage-wise comparisons at a quiescent point.
func (o *PipelineOracle) checkpoint(w *World, final bool) {
	o.checkpoints++
	o.trackSessions(w)
	obs := w.Observe()
	dut := w.Plan.DUT
	for pi, p := range w.Peers {
		po := obs.Peers[pi]
		pc := p.Cfg
		src := pc.addrString()
		if po.NEst > 1 && o.on("C24") {
			w.Env.Violate("C24", "two_established", "peer %s has %d Established FSMs", pc.Name, po.NEst)
		}
		if o.on("C20") && po.Est != nil {
			o.checkRefIn(w, pi, "C20", "adj_rib_in_at_checkpoint")
		}
		for fi, v6 := range []bool{false, true} {
			if v6 && !pc.IPv6 || !v6 && !pc.IPv4 {
				continue
			}
			// ---- import stage (C05): Loc-RIB paths of this source = reference-import(Adj-RIB-In)
			if o.on("C05") {
				exp := map[string]int{}
				if po.HasIn[fi] {
					for pfx, ps := range po.In[fi] {
						for _, c := range ps {
							if c.Hidden != 0 {
								continue // stored but not eligible (whether the classification is right is C06's business)
							}
							if out, ok := RefImport(dut, pc, pfx, c); ok {
								exp[fmt.Sprintf("%s %s", pfx, normLoc(out).Key(true))]++
							}
						}
					}
				}
				got := map[string]int{}
				for pfx, ps := range obs.Loc[fi] {
					for _, c := range ps {
						if c.Type == route.BGPPathType && c.Source == src {
							got[fmt.Sprintf("%s %s", pfx, normLoc(c).Key(true))]++
						}
					}
				}
				if d := diffCounts(exp, got); d != "" {
					w.Env.Violate("C05", "locrib_vs_adjribin", "peer %s v6=%v: %s", pc.Name, v6, d)
				}
			}
			// ---- export stage (C08): Adj-RIB-Out = reference-export(Loc-RIB)
			if o.on("C08") && po.HasOut[fi] {
				exp := RefAdjRIBOut(dut, pc, obs.Loc[fi])
				got := map[Prefix][]string{}
				for pfx, ps := range po.Out[fi] {
					for _, c := range ps {
						wild := pc.AS == dut.LocalAS && pc.RRClient && (c.EBGP || c.Redist == route.StaticPathType)
						got[pfx] = append(got[pfx], normOut(c, wild).Key(false))
					}
					sort.Strings(got[pfx])
				}
				if d := diffPrefixSets(exp, got); d != "" {
					as := "adjribout_vs_locrib"
					if w.Plan.Params["ap_trigger"] == 1 && pc.AddPathTX > 0 && pc.PeerAddPath&1 != 0 {
						// run that deliberately explores known finding F-C08-1 on this kind of session
						as = "adjribout_vs_locrib_addpath_unexportable_trigger"
					}
					w.Env.Violate("C08", as, "peer %s v6=%v: %s", pc.Name, v6, d)
				}
			}
			// ---- wire stage (C10): the peer's view = Adj-RIB-Out
			if o.on("C10") && po.HasOut[fi] && p.Established() && po.Est.Con == p.conn {
				fam := famOf(po.Est, v6)
				if fam != nil && fam.Queued == 0 {
					apTX := (v6 && p.opts.AddPathV6) || (!v6 && p.opts.AddPathV4)
					exp := map[string]int{}
					for pfx, ps := range po.Out[fi] {
						for _, c := range ps {
							id := c.PathID
							if !apTX {
								id = 0
							}
							cc := wireNorm(dut, pc, c)
							cc.PathID = 0
							// the view is keyed by (prefix, identifier): copies of one exported path stored
							// under one identifier (a path exported twice on an add-path session) are one entry
							exp[fmt.Sprintf("%s id=%d %s", pfx, id, cc.Key(false))] = 1
						}
					}
					got := map[string]int{}
					for k, a := range p.View {
						if k.Pfx.V6 != v6 {
							continue
						}
						cc := wireNorm(dut, pc, CanonFromAttrs(a, 0))
						got[fmt.Sprintf("%s id=%d %s", k.Pfx, k.PathID, cc.Key(false))]++
					}
					if d := diffCounts(exp, got); d != "" {
						w.Env.Violate("C10", "view_vs_adjribout", "peer %s v6=%v: %s", pc.Name, v6, d)
					}
				}
			}
			// ---- C11: distinct paths of a prefix have distinct ids in the Adj-RIB-Out
			if o.on("C11") && po.HasOut[fi] && pc.AddPathTX > 0 && pc.PeerAddPath&1 != 0 && w.Plan.Params["ap_trigger"] != 1 {
				// identifier allocation keeps working: every selected, exportable path is stored
				exp := RefAdjRIBOut(dut, pc, obs.Loc[fi])
				for pfx, ks := range exp {
					if len(po.Out[fi][pfx]) < len(ks) {
						w.Env.Violate("C11", "path_not_stored", "peer %s %s: %d exportable paths selected but only %d stored in the add-path Adj-RIB-Out (identifier allocation failed?)", pc.Name, pfx, len(ks), len(po.Out[fi][pfx]))
					}
				}
			}
			// C11: a path the peer holds is held under the identifier the Adj-RIB-Out stores for it
			// (so that a later withdrawal names the identifier the path was announced with)
			if o.on("C11") && po.HasOut[fi] && p.Established() && po.Est.Con == p.conn {
				apTX := (v6 && p.opts.AddPathV6) || (!v6 && p.opts.AddPathV4)
				if fam := famOf(po.Est, v6); apTX && fam != nil && fam.Queued == 0 {
					for pfx, ps := range po.Out[fi] {
						for _, c := range ps {
							want := wireNorm(dut, pc, c)
							want.PathID = 0
							wk := want.Key(false)
							var under []uint32
							found := false
							for k, a := range p.View {
								if k.Pfx != pfx {
									continue
								}
								if wireNorm(dut, pc, CanonFromAttrs(a, 0)).Key(false) == wk {
									under = append(under, k.PathID)
									if k.PathID == c.PathID {
										found = true
									}
								}
							}
							if !found && len(under) > 0 {
								w.Env.Violate("C11", "id_differs_between_view_and_adjribout", "peer %s %s: path stored under id %d but announced to the peer under ids %v: %s", pc.Name, pfx, c.PathID, under, wk)
							}
						}
					}
				}
			}
			if o.on("C11") && po.HasOut[fi] {
				for pfx, ps := range po.Out[fi] {
					seen := map[uint32]string{}
					for _, c := range ps {
						k := c.Key(false)
						if prev, dup := seen[c.PathID]; dup && prev != k && pc.AddPathTX > 0 && pc.PeerAddPath&1 != 0 {
							w.Env.Violate("C11", "duplicate_path_id", "peer %s %s: id %d used for two different paths: %s | %s", pc.Name, pfx, c.PathID, prev, k)
						}
						seen[c.PathID] = k
					}
				}
			}
		}
	}
	if o.on("C06") {
		o.checkIneligible(w, "checkpoint")
	}
	if o.on("C07") {
		o.c07Checkpoint(w, obs)
	}
}

func diffCounts(exp, got map[string]int) string {
	var missing, extra []string
	for k, n := range exp {
		if got[k] < n {
			missing = append(missing, k)
		}
	}
	for k, n := range got {
		if exp[k] < n {
			extra = append(extra, k)
		}
	}
	if len(missing)+len(extra) == 0 {
		return ""
	}
	sort.Strings(missing)
	sort.Strings(extra)
	return fmt.Sprintf("expected but absent: [%s]; present but not expected: [%s]", strings.Join(missing, " ; "), strings.Join(extra, " ; "))
}

func diffPrefixSets(exp, got map[Prefix][]string) string {
	e, g := map[string]int{}, map[string]int{}
	for pfx, ks := range exp {
		for _, k := range ks {
			e[fmt.Sprintf("%s %s", pfx, k)]++
		}
	}
	for pfx, ks := range got {
		for _, k := range ks {
			g[fmt.Sprintf("%s %s", pfx, k)]++
		}
	}
	return diffCounts(e, g)
}

// onWire is the always-on wire monitor (C09 rule table, C11 id discipline).
func (o *PipelineOracle) onWire(w *World, pi int, p *Peer, c *Conn, u *Update, raw []byte) {
	dut := w.Plan.DUT
	pc := p.Cfg
	ibgp := pc.AS == dut.LocalAS
	ann := append(append([]NLRI(nil), u.NLRI...), u.MPReach...)
	wd := append(append([]NLRI(nil), u.Withdrawn...), u.MPUnreach...)
	// C11: a withdrawal names an id under which the prefix is currently announced
	// (a withdrawal that names an id which is not announced is judged at the next quiescent
	// point: C11 compares ids between view and Adj-RIB-Out there; a withdrawal overtaking its
	// still queued announcement is C10's business)
	for _, n := range wd {
		if _, ok := p.View[viewKey{n.Prefix, n.PathID}]; !ok {
			w.Env.probe("withdraw_of_unannounced_key")
		}
	}
	if len(ann) == 0 || !o.on("C09") {
		return
	}
	a := u.Attrs
	cp := CanonFromAttrs(a, 0)
	tag := cp.Tag()
	viol := func(as, f string, args ...any) {
		w.Env.Violate("C09", as, "to %s (%s): %s [%s]", pc.Name, kindOf(dut, pc), fmt.Sprintf(f, args...), cp.Key(false))
	}
	if hasComm(a.Communities, CommNoAdvertise) {
		viol("no_advertise_sent", "route with NO_ADVERTISE advertised")
	}
	if hasComm(a.Communities, CommNoExport) && !ibgp {
		viol("no_export_to_ebgp", "route with NO_EXPORT advertised to an eBGP peer")
	}
	org, known := o.origin[tag]
	if known {
		if org.Peer == pi {
			viol("sent_back_to_source", "route learned from this peer advertised back to it")
		}
		src := w.Peers[org.Peer].Cfg
		if src.AS == dut.LocalAS && ibgp && !pc.RRClient && org.Peer != pi {
			viol("ibgp_to_nonclient", "route learned from iBGP peer %s advertised to non-client iBGP peer", src.Name)
		}
		if ibgp && pc.RRClient && src.AS == dut.LocalAS && org.Peer != pi {
			// reflected route: ORIGINATOR_ID present, CLUSTER_LIST starts with local cluster id
			cid := dut.ClusterID
			if cid == 0 {
				cid = dut.RouterID
			}
			if !a.HasOriginator || a.OriginatorID == 0 {
				viol("reflected_without_originator", "reflected route carries no ORIGINATOR_ID")
			}
			if len(a.ClusterList) == 0 || a.ClusterList[0] != cid {
				viol("reflected_cluster_list", "reflected route's CLUSTER_LIST %v does not start with local cluster id %d", a.ClusterList, cid)
			}
		}
	}
	if !ibgp {
		if a.HasLocalPref {
			viol("local_pref_to_ebgp", "LOCAL_PREF sent to an eBGP peer")
		}
		if !pc.RSClient {
			first := uint32(0)
			inFirst := false
			if len(a.ASPath) > 0 && a.ASPath[0].Type == 2 && len(a.ASPath[0].ASNs) > 0 {
				first = a.ASPath[0].ASNs[0]
				// what an export policy prepends comes in front of the local ASN, in the same AS_SEQUENCE
				// or, when that one is full, in the sequences opened before it
				for _, seg := range a.ASPath {
					if seg.Type != 2 {
						break
					}
					for _, x := range seg.ASNs {
						if x == dut.LocalAS {
							inFirst = true
						}
					}
				}
			}
			if first != dut.LocalAS && !(o.expPrepend[pi] && inFirst) {
				viol("no_local_as_prepended", "AS_PATH %s does not start with the local ASN %d", cp.ASPathString(), dut.LocalAS)
			}
			if cp.NextHop != "10.0.0.254" && !o.expNH[pi] {
				viol("next_hop_not_self", "next hop %s is not the local address", cp.NextHop)
			}
		}
		if rolesActive(pc) {
			pr := *pc.PeerRole
			// RFC 9234 5, egress rule 2: a route that already contains OTC (received with it, or marked at
			// ingress because it came from a provider, peer or RS) is not sent to providers, peers, RSes.
			// Towards a peer the local AS adds OTC itself (rule 1), so OTC as such is expected there.
			marked := false
			if known {
				src := w.Peers[org.Peer].Cfg
				if org.Attr.OTC != nil {
					marked = true
				}
				if rolesActive(src) && (*src.PeerRole == roleProvider || *src.PeerRole == rolePeer || *src.PeerRole == roleRS) {
					marked = true
				}
			}
			if a.HasOTC && (pr == roleProvider || pr == roleRS) {
				viol("otc_to_provider_peer_rs", "route with OTC advertised to a %s", roleName(pr))
			}
			if marked && (pr == roleProvider || pr == rolePeer || pr == roleRS) {
				viol("otc_to_provider_peer_rs", "route that already carried OTC (from %s) advertised to a %s", w.Peers[org.Peer].Cfg.Name, roleName(pr))
			}
			if !a.HasOTC && (pr == roleCustomer || pr == rolePeer || pr == roleRSClient) {
				viol("otc_not_added", "route without OTC advertised to a %s", roleName(pr))
			}
		}
	}
}

func idsFor(p *Peer, pfx Prefix) []uint32 {
	var ids []uint32
	for k := range p.View {
		if k.Pfx == pfx {
			ids = append(ids, k.PathID)
		}
	}
	sort.Slice(ids, func(i, j int) bool { return ids[i] < ids[j] })
	return ids
}

func roleName(r uint8) string {
	switch r {
	case roleProvider:
		return "provider"
	case roleRS:
		return "route server"
	case roleRSClient:
		return "RS client"
	case roleCustomer:
		return "customer"
	case rolePeer:
		return "peer"
	}
	return "?"
}

func kindOf(dut DUTCfg, pc PeerCfg) string {
	switch {
	case pc.AS == dut.LocalAS && pc.RRClient:
		return "iBGP RR client"
	case pc.AS == dut.LocalAS:
		return "iBGP"
	case pc.RSClient:
		return "eBGP RS client"
	}
	return "eBGP"
}

func sortedU32(m map[uint32]bool) []uint32 {
	var ks []uint32
	for k := range m {
		ks = append(ks, k)
	}
	sort.Slice(ks, func(i, j int) bool { return ks[i] < ks[j] })
	return ks
}

package bgp

import (
	"fmt"

	"github.com/bio-routing/bio-rd/route"
)

// C10, second plan family: the Adj-RIB-Out operations of the property's quantifier issued
// directly - AddPath / RemovePath on the Adj-RIB-Out of a live session (obtained through the
// accessor), not through the Loc-RIB, which always withdraws the old best path before it
// announces the new one. Here an AddPath may replace the stored path of a best-only session,
// add a path that is already there, or follow a RemovePath of something never added, at any
// distance from the update sender's tick. The oracle is the ordinary C10 comparison: the
// neighbour's view (replay of the UPDATEs it received) equals the Adj-RIB-Out once changes stop.

func genC10Direct(seed uint64) *Plan {
	pr := DefaultProfile()
	pr.MinPeers, pr.MaxPeers = 1, 2
	pr.NPrefixes = 3
	pr.AddPathTXProb = 0.3
	pr.AggrChoices = []int64{5000, 20000, 100000}
	pr.BigGapProb = 0.01
	pr.ExportKinds = []string{"accept", "accept", "rewrite"}
	g := newGen("C10", seed, pr)
	r := g.r
	g.plan.Sim.GateProb = pick(r, []float64{0, 0, 0.5, 1})
	g.plan.Sim.Sticky = pick(r, []float64{0, 0.5})
	if g.plan.Params == nil {
		g.plan.Params = map[string]int64{}
	}
	g.plan.Params["direct"] = 1
	for i := 0; i < 5; i++ {
		c := genCand(r, false)
		c.Source = 0x0a00000a + uint32(i) // not one of the neighbours: the split-horizon rule stays out of the way
		g.plan.Cands = append(g.plan.Cands, c)
	}
	g.connectAll()
	n := 6 + r.Intn(30)
	for i := 0; i < n; i++ {
		pi := r.Intn(len(g.plan.Peers))
		st := Step{GapUS: g.gap(), Kind: "out_op", Label: weighted(r, map[string]int{"add": 3, "remove": 2}, []string{"add", "remove"}),
			Peer: pi, Pfx: []Prefix{pick(r, g.prefixes)}, N: r.Intn(len(g.plan.Cands))}
		g.add(st)
		if r.Chance(0.1) {
			g.checkpoint()
		}
	}
	g.checkpoint()
	return g.plan
}

type c10DirectOracle struct{ ops int }

func (o *c10DirectOracle) Init(w *World) {
	w.Data["exec:out_op"] = func(w *World, i int, s *Step) {
		p := w.Peers[s.Peer]
		est, _ := w.DUT.EstablishedFSM(p)
		if est == nil {
			w.Env.Sim.Settle()
			return
		}
		fam := famOf(est, false)
		if fam == nil || fam.AdjRIBOut == nil {
			w.Env.Sim.Settle()
			return
		}
		out := fam.AdjRIBOut
		pfx := ToBnetPrefix(s.Pfx[0])
		path := w.Plan.Cands[s.N].build(s.N)
		path.BGPPath.BGPPathA.EBGP = true // learned from elsewhere: exportable to iBGP and eBGP neighbours alike
		o.ops++
		if s.Label == "add" {
			w.Go(fmt.Sprintf("AdjRIBOut[%s].AddPath", p.Cfg.Name), func() { out.AddPath(pfx, path) })
		} else {
			w.Go(fmt.Sprintf("AdjRIBOut[%s].RemovePath", p.Cfg.Name), func() { out.RemovePath(pfx, path) })
		}
		w.Env.Sim.Settle()
	}
}
func (o *c10DirectOracle) AfterStep(w *World, i int, s *Step) {}
func (o *c10DirectOracle) Final(w *World) {
	if o.ops > 0 {
		w.Env.probeN("direct_adjribout_operation", o.ops)
	}
}

var _ = route.BGPPathType

func init() {
	c10b := bgpProps["C10"]
	bgpProps["C10"] = propDef{
		Setup: c10b.Setup, Twin: c10b.Twin,
		Gen: func(seed uint64) *Plan {
			if (seed>>1)%4 == 0 { // run seeds are always odd
				return genC10Direct(seed)
			}
			return c10b.Gen(seed)
		},
		Oracles: func(p *Plan) []Oracle {
			os := c10b.Oracles(p)
			if p.Params["direct"] == 1 {
				os = append([]Oracle{&c10DirectOracle{}}, os...)
			}
			return os
		},
	}
}

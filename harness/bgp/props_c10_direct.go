package bgp

import (
	"fmt"
	"sort"

	"github.com/bio-routing/bio-rd/route"
)

// C10, second plan family: the Adj-RIB-Out operations of the property's quantifier issued
// directly - AddPath / RemovePath on the Adj-RIB-Out of a live session (obtained through the
// accessor), not through the Loc-RIB, which always withdraws the old best path before it
// announces the new one. Here an AddPath may replace the stored path of a best-only session,
// add a path that is already there, or follow a RemovePath of something never added, at any
// distance from the update sender's tick. The oracle is the ordinary C10 comparison: the
// neighbour's view (replay of the UPDATEs it received) equals the Adj-RIB-Out once changes stop.

func genC10Direct(seed uint64) *Plan {
	pr := DefaultProfile()
	pr.MinPeers, pr.MaxPeers = 1, 2
	pr.NPrefixes = 3
	pr.AddPathTXProb = 0.3
	pr.AggrChoices = []int64{5000, 20000, 100000}
	pr.BigGapProb = 0.01
	pr.ExportKinds = []string{"accept", "accept", "rewrite"}
	g := newGen("C10", seed, pr)
	r := g.r
	g.plan.Sim.GateProb = pick(r, []float64{0, 0, 0.5, 1})
	g.plan.Sim.Sticky = pick(r, []float64{0, 0.5})
	if g.plan.Params == nil {
		g.plan.Params = map[string]int64{}
	}
	g.plan.Params["direct"] = 1
	for i := 0; i < 5; i++ {
		c := genCand(r, false)
		c.Source = 0x0a00000a + uint32(i) // not one of the neighbours: the split-horizon rule stays out of the way
		g.plan.Cands = append(g.plan.Cands, c)
	}
	g.connectAll()
	n := 6 + r.Intn(30)
	for i := 0; i < n; i++ {
		pi := r.Intn(len(g.plan.Peers))
		st := Step{GapUS: g.gap(), Kind: "out_op", Label: weighted(r, map[string]int{"add": 3, "remove": 2}, []string{"add", "remove"}),
			Peer: pi, Pfx: []Prefix{pick(r, g.prefixes)}, N: r.Intn(len(g.plan.Cands))}
		g.add(st)
		if r.Chance(0.1) {
			g.checkpoint()
		}
	}
	g.checkpoint()
	return g.plan
}

type c10DirectOracle struct {
	ops int
	// model of what the operations left advertised (C11 plans: accept-all export policy, every
	// candidate exportable): per session and prefix, candidate -> number of copies added
	model map[int]map[Prefix]map[int]int
}

// genC11Direct: the same direct operations judged against the operations themselves: a removal
// withdraws the path it names (under the identifier that path was announced with) and no other.
// Candidates include twins that differ in nothing but one standard community (their tag).
func genC11Direct(seed uint64) *Plan {
	pl := genC10Direct(seed)
	pl.Prop = "C11"
	r := propRand("C11D", seed)
	for i := range pl.Peers {
		pl.Peers[i].Export = AcceptAll()
		if r.Chance(0.7) {
			pl.Peers[i].AddPathTX, pl.Peers[i].PeerAddPath = uint(2+r.Intn(3)), pl.Peers[i].PeerAddPath|1
		}
	}
	// twins: candidate k+1 equals candidate k except for the tag community build() gives it
	for k := 0; k+1 < len(pl.Cands); k += 2 {
		if r.Chance(0.6) {
			pl.Cands[k+1] = pl.Cands[k]
		}
	}
	return pl
}

func (o *c10DirectOracle) note(s *Step, bestOnly bool) {
	if o.model == nil {
		o.model = map[int]map[Prefix]map[int]int{}
	}
	if o.model[s.Peer] == nil {
		o.model[s.Peer] = map[Prefix]map[int]int{}
	}
	m := o.model[s.Peer][s.Pfx[0]]
	if m == nil {
		m = map[int]int{}
		o.model[s.Peer][s.Pfx[0]] = m
	}
	switch {
	case s.Label == "add" && bestOnly:
		for k := range m {
			delete(m, k)
		}
		m[s.N] = 1
	case s.Label == "add":
		m[s.N]++
	case m[s.N] > 0:
		m[s.N]--
		if m[s.N] == 0 {
			delete(m, s.N)
		}
	}
}

// checkOps (C11 plans, at checkpoints): the candidates the neighbour holds per prefix are the ones
// the operations left there.
func (o *c10DirectOracle) checkOps(w *World) {
	for pi, p := range w.Peers {
		est, _ := w.DUT.EstablishedFSM(p)
		if est == nil || est.Con != p.conn || !p.Established() {
			continue
		}
		fam := famOf(est, false)
		if fam == nil || fam.Queued != 0 {
			continue
		}
		got := map[Prefix][]int{}
		for k, a := range p.View {
			for _, c := range a.Communities {
				if c&0xff000000 == 0xfd000000 {
					got[k.Pfx] = append(got[k.Pfx], int(c&0xffffff))
				}
			}
		}
		want := map[Prefix][]int{}
		for pfx, m := range o.model[pi] {
			for c, n := range m {
				if n > 0 {
					want[pfx] = append(want[pfx], c)
				}
			}
		}
		for _, pfx := range w.Plan.pfxPool() {
			g, wn := got[pfx], want[pfx]
			sort.Ints(g)
			sort.Ints(wn)
			if fmt.Sprint(g) != fmt.Sprint(wn) {
				w.Env.Violate("C11", "withdrawal_names_another_path", "peer %s %s: the AddPath / RemovePath operations on its Adj-RIB-Out left candidates %v advertised, the neighbour holds %v (a removal withdrew a path other than the one it named, or under another identifier)", p.Cfg.Name, pfx, wn, g)
			}
		}
	}
}

func (o *c10DirectOracle) Init(w *World) {
	w.Data["exec:out_op"] = func(w *World, i int, s *Step) {
		p := w.Peers[s.Peer]
		est, _ := w.DUT.EstablishedFSM(p)
		if est == nil {
			w.Env.Sim.Settle()
			return
		}
		fam := famOf(est, false)
		if fam == nil || fam.AdjRIBOut == nil {
			w.Env.Sim.Settle()
			return
		}
		out := fam.AdjRIBOut
		pfx := ToBnetPrefix(s.Pfx[0])
		path := w.Plan.Cands[s.N].build(s.N)
		path.BGPPath.BGPPathA.EBGP = true // learned from elsewhere: exportable to iBGP and eBGP neighbours alike
		o.ops++
		o.note(s, !fam.AddPathTX)
		if s.Label == "add" {
			w.Go(fmt.Sprintf("AdjRIBOut[%s].AddPath", p.Cfg.Name), func() { out.AddPath(pfx, path) })
		} else {
			w.Go(fmt.Sprintf("AdjRIBOut[%s].RemovePath", p.Cfg.Name), func() { out.RemovePath(pfx, path) })
		}
		w.Env.Sim.Settle()
	}
}
func (o *c10DirectOracle) AfterStep(w *World, i int, s *Step) {
	if s.Kind == "checkpoint" && w.Plan.Prop == "C11" {
		o.checkOps(w)
	}
}
func (o *c10DirectOracle) Final(w *World) {
	if o.ops > 0 {
		w.Env.probeN("direct_adjribout_operation", o.ops)
	}
}

var _ = route.BGPPathType

// pfxPool: the prefixes the plan's steps mention.
func (p *Plan) pfxPool() []Prefix {
	seen := map[Prefix]bool{}
	var out []Prefix
	for _, s := range p.Steps {
		for _, x := range s.Pfx {
			if !seen[x] {
				seen[x] = true
				out = append(out, x)
			}
		}
	}
	sortPrefixes(out)
	return out
}

func init() {
	c11b := bgpProps["C11"]
	bgpProps["C11"] = propDef{
		Setup: c11b.Setup, Twin: c11b.Twin, KeepStep: c11b.KeepStep,
		Gen: func(seed uint64) *Plan {
			if (seed>>1)%5 == 0 {
				return genC11Direct(seed)
			}
			return c11b.Gen(seed)
		},
		Oracles: func(p *Plan) []Oracle {
			os := c11b.Oracles(p)
			if p.Params["direct"] == 1 {
				os = append([]Oracle{&c10DirectOracle{}}, os...)
			}
			return os
		},
	}
	c10b := bgpProps["C10"]
	bgpProps["C10"] = propDef{
		Setup: c10b.Setup, Twin: c10b.Twin,
		Gen: func(seed uint64) *Plan {
			if (seed>>1)%4 == 0 { // run seeds are always odd
				return genC10Direct(seed)
			}
			return c10b.Gen(seed)
		},
		Oracles: func(p *Plan) []Oracle {
			os := c10b.Oracles(p)
			if p.Params["direct"] == 1 {
				os = append([]Oracle{&c10DirectOracle{}}, os...)
			}
			return os
		},
	}
}

package bgp

import (
	"bufio"
	"encoding/json"
	"flag"
	"fmt"
	"os"
	"testing"

	"verif.local/simrt"
)

var (
	flagProp   = flag.String("prop", "", "property id")
	flagSeed   = flag.Uint64("seed", 1, "base seed")
	flagFrom   = flag.Int("from", 0, "first run index")
	flagRuns   = flag.Int("runs", 10, "number of runs")
	flagOut    = flag.String("out", "", "output file (JSON lines)")
	flagReplay = flag.String("replay", "", "replay a plan file")
	flagTrace  = flag.Bool("trace", false, "keep canonical trace")
	flagDump   = flag.Bool("dumpplan", false, "print the generated plans")
	flagSamplePlans = flag.Int("sampleplans", 0, "include the plan of the first k runs in the output")
	flagPlanOnly = flag.Bool("planonly", false, "emit the generated plans without running them")
	flagShrink = flag.String("shrink", "", "with -replay: minimise the plan for this assertion id")
	flagBudget = flag.Int("budget", 400, "candidate executions allowed while shrinking")
)

// RunSeed derives the seed of run i of a batch.
func RunSeed(base uint64, i int) uint64 {
	x := base*0x9e3779b97f4a7c15 + uint64(i)*0xbf58476d1ce4e5b9 + 0x94d049bb133111eb
	x ^= x >> 31
	x *= 0xd6e8feb86659fd93
	x ^= x >> 32
	return x | 1
}

type outLine struct {
	Kind   string     `json:"kind"` // start | result
	Index  int        `json:"index"`
	Seed   uint64     `json:"seed"`
	Result *RunResult `json:"result,omitempty"`
	Plan   *Plan      `json:"plan,omitempty"`
}

// RunMain runs a batch of simulated runs for one property (driven by vcheck through the test
// binary's TestProp). It lives in a non-test file so that a second engine binary (cfgsim, built
// inside package main of cmd/bio-rd) can use the same driver.
func RunMain(t *testing.T) {
	if *flagProp == "" && *flagReplay == "" {
		t.Skip("no -prop")
	}
	var out *bufio.Writer
	if *flagOut != "" {
		f, err := os.OpenFile(*flagOut, os.O_CREATE|os.O_WRONLY|os.O_APPEND, 0o644)
		if err != nil {
			t.Fatal(err)
		}
		defer f.Close()
		out = bufio.NewWriter(f)
		defer out.Flush()
	}
	emit := func(l outLine) {
		b, _ := json.Marshal(l)
		if out != nil {
			out.Write(b)
			out.WriteByte('\n')
			out.Flush()
		} else if l.Kind == "result" {
			r := l.Result
			fmt.Printf("run %d seed %d: violations=%d trace=%s events=%d sim=%.1fs wall=%dms probes=%v faults=%v\n", l.Index, l.Seed, len(r.Violations), r.TraceHash, r.Stats.Events, float64(r.SimTimeNS)/1e9, r.WallUS/1000, r.Probes, r.Faults)
			for _, v := range r.Violations {
				fmt.Printf("   VIOL %s/%s step %d: %s\n", v.Prop, v.Assertion, v.Step, v.Detail)
			}
			if r.Panic != "" {
				fmt.Printf("   PANIC %s\n", r.Panic)
			}
		}
	}
	if *flagReplay != "" {
		b, err := os.ReadFile(*flagReplay)
		if err != nil {
			t.Fatal(err)
		}
		var rf ReplayFile
		if err := json.Unmarshal(b, &rf); err != nil {
			t.Fatal(err)
		}
		def, ok := lookupProp(rf.Plan.Prop)
		if !ok {
			t.Fatalf("unknown property %q", rf.Plan.Prop)
		}
		if *flagShrink != "" {
			small, n := ShrinkPlan(t, def, rf.Plan, *flagShrink, *flagBudget)
			res := runOne(t, def, clonePlan(small), true)
			emit(outLine{Kind: "shrunk", Seed: rf.Plan.Seed, Result: res, Plan: small, Index: n})
			return
		}
		res := runOne(t, def, rf.Plan, true)
		emit(outLine{Kind: "result", Seed: rf.Plan.Seed, Result: res, Plan: rf.Plan})
		return
	}
	def, ok := lookupProp(*flagProp)
	if !ok {
		t.Fatalf("unknown property %q", *flagProp)
	}
	for i := *flagFrom; i < *flagFrom+*flagRuns; i++ {
		seed := RunSeed(*flagSeed, i)
		plan := def.Gen(seed)
		if *flagDump {
			fmt.Println(string(plan.JSON()))
		}
		if *flagPlanOnly {
			emit(outLine{Kind: "plan", Index: i, Seed: seed, Plan: plan})
			continue
		}
		emit(outLine{Kind: "start", Index: i, Seed: seed})
		res := runOne(t, def, plan, *flagTrace)
		l := outLine{Kind: "result", Index: i, Seed: seed, Result: res}
		if len(res.Violations) > 0 || res.Panic != "" || i-*flagFrom < *flagSamplePlans {
			l.Plan = plan
		}
		emit(l)
	}
}

// ReplayFile is the on-disk format of a reported violation.
type ReplayFile struct {
	Property  string      `json:"property"`
	Assertion string      `json:"assertion"`
	Seed      uint64      `json:"seed"`
	Detail    string      `json:"detail"`
	Minimised bool        `json:"minimised"`
	Plan      *Plan       `json:"plan"`
	Trace     []string    `json:"trace,omitempty"`
	ReplayExact bool      `json:"replay_exact"`
}

func lookupProp(id string) (propDef, bool) {
	d, ok := bgpProps[id]
	return d, ok
}

func runOne(t *testing.T, def propDef, plan *Plan, trace bool) *RunResult {
	res := RunPlan(t, plan, RunOpts{KeepTrace: trace, Oracles: def.Oracles, Setup: def.Setup})
	if def.Twin != nil && res.Panic == "" {
		def.Twin(t, plan, res)
	}
	if plan.Prop == "C26" {
		if !simrt.RaceMode {
			res.Violations = append(res.Violations, Violation{Prop: "HARNESS", Assertion: "not_a_race_build", Detail: "C26 plans are judged by the race detector and must run on the -race build of the engine"})
		}
		res.Violations = append(res.Violations, raceViolations("C26")...)
		res.Nontrivial = res.Probes["concurrent_step"] > 0
	}
	// keep only violations of the property under test (plus harness/wire ones it owns)
	var keep []Violation
	for _, v := range res.Violations {
		if v.Prop == plan.Prop || v.Prop == "HARNESS" || (v.Prop == "WIRE" && wireOwners[plan.Prop]) {
			keep = append(keep, v)
		}
	}
	res.Violations = keep
	return res
}

// properties that own the generic wire assertions (undecodable / oversize DUT messages)
var wireOwners = map[string]bool{"C10": true, "C22": true, "C31": true, "C32": true, "C33": true}

// RegisterProp adds a property definition from outside this package (cfgsim).
func RegisterProp(id string, gen func(seed uint64) *Plan, oracles func(p *Plan) []Oracle, twin func(t *testing.T, p *Plan, res *RunResult)) {
	bgpProps[id] = propDef{Gen: gen, Oracles: oracles, Twin: twin}
}

package bgp

import (
	"fmt"
	"sort"
	"strings"
)

// C18: UPDATE packing is lossless and within the size limit. What batches the update
// sender forms depends on how many prefixes with identical attributes are queued inside
// one aggregation window - i.e. on timing, which the plan controls: a source peer
// announces 1..3000 prefixes with one attribute set (sized to land on both sides of the
// per-message budget) back to back; the DUT packs them towards the other sessions
// (IPv4 classic, multiprotocol IPv6, add-path, 2/4 octet AS).

func genC18(seed uint64) *Plan {
	r := propRand("C18", seed)
	pl := newPlan("C18", seed, r)
	pl.Sim.AggrUS = pick(r, []int64{5000, 50_000, 500_000})
	srcAS := uint32(65001)
	if r.Chance(0.3) {
		srcAS = 65000
	}
	src := basicPeer(0, srcAS)
	src.Name = "src"
	src.IPv6 = true
	pl.Peers = append(pl.Peers, src)
	nt := 1 + r.Intn(3)
	for i := 0; i < nt; i++ {
		as := uint32(65010 + i)
		if srcAS != 65000 && r.Chance(0.3) {
			as = 65000
		}
		t := basicPeer(1+i, as)
		t.Name = fmt.Sprintf("t%d", i+1)
		t.IPv6 = r.Chance(0.6)
		t.PeerASN4 = !r.Chance(0.25)
		if as == 65000 {
			t.RRClient = r.Chance(0.5)
		}
		if r.Chance(0.35) {
			t.AddPathTX = uint(1 + r.Intn(3))
			t.PeerAddPath |= 1
		}
		if r.Chance(0.3) {
			t.DUTAdvMPv4, t.PeerMPv4 = true, true
		}
		pl.Peers = append(pl.Peers, t)
	}
	for i := range pl.Peers {
		pl.Steps = append(pl.Steps, Step{GapUS: 1000, Kind: "connect", Peer: i})
	}
	pl.Steps = append(pl.Steps, Step{GapUS: 500_000, Kind: "checkpoint"})
	rounds := 1 + r.Intn(3)
	tag := uint32(20000)
	for k := 0; k < rounds; k++ {
		tag++
		v6 := r.Chance(0.4)
		// attribute size: AS_PATH of 1..900 ASNs, communities 0..200
		nas := pick(r, []int{1, 3, 40, 250, 256, 300, 600, 850, 900})
		if r.Chance(0.3) {
			nas = 1 + r.Intn(900)
		}
		var segs []Segment
		var all []uint32
		if srcAS != 65000 {
			all = append(all, srcAS)
		}
		for i := 0; i < nas; i++ {
			all = append(all, uint32(1000+i%400))
		}
		all = append(all, tag)
		for len(all) > 0 {
			n := len(all)
			if n > 255 {
				n = 255
			}
			segs = append(segs, Segment{Type: 2, ASNs: all[:n]})
			all = all[n:]
		}
		boundary := r.Chance(0.3)
		if boundary {
			// many one-ASN segments: the attribute block is larger than a size estimate that counts
			// ASNs suggests; the prefix count is then put right at the edge of one full message
			segs = nil
			if srcAS != 65000 {
				segs = append(segs, Segment{Type: 2, ASNs: []uint32{srcAS}})
			}
			for i := pick(r, []int{20, 40, 80}); i > 0; i-- {
				segs = append(segs, Segment{Type: 2, ASNs: []uint32{uint32(1000 + i)}})
			}
			segs = append(segs, Segment{Type: 2, ASNs: []uint32{tag}})
		}
		a := &AttrSpec{ASPath: segs, NextHop: 0x0a000001}
		if srcAS == 65000 {
			a.LocalPref = u32p(100)
		}
		for i := r.Intn(3) * 40; i > 0; i-- {
			a.Communities = append(a.Communities, 65000<<16|uint32(i))
		}
		count := pick(r, []int{1, 2, 50, 300, 700, 1500, 3000})
		if r.Chance(0.3) {
			count = 1 + r.Intn(800)
		}
		if nas > 100 && count > 400 {
			count = 100 + r.Intn(300) // large attributes: fewer prefixes per message, keep the run affordable
		}
		plen := uint8(32)
		if v6 {
			plen = pick(r, []uint8{48, 64, 128})
		} else {
			plen = pick(r, []uint8{16, 24, 32})
		}
		if boundary {
			// as many NLRI as fill one UPDATE together with these attributes, give or take a few
			one := len(EncodeUpdate(UpdateSpec{Announce: []NLRI{{Prefix: manyPrefixes(v6, plen, 1, 0)[0]}}, Attrs: a.Attrs(v6), V6: v6, ASN4: true}))
			two := len(EncodeUpdate(UpdateSpec{Announce: []NLRI{{Prefix: manyPrefixes(v6, plen, 2, 0)[0]}, {Prefix: manyPrefixes(v6, plen, 2, 0)[1]}}, Attrs: a.Attrs(v6), V6: v6, ASN4: true}))
			if per := two - one; per > 0 {
				count = (4096-one)/per + 1 + r.Intn(28) - 20
				if count < 1 {
					count = 1
				}
			}
		}
		pl.Steps = append(pl.Steps, Step{GapUS: int64(10_000 + r.Intn(200_000)), Kind: "announce_many", Peer: 0, V6: v6, N: count, Attr: a, Code: plen, Label: fmt.Sprintf("round%d", k)})
		if r.Chance(0.35) {
			// a second set of prefixes in the same aggregation window whose attributes differ from the
			// first set's in one standard community only
			b := *a
			b.Communities = append(append([]uint32(nil), a.Communities...), 65000<<16|uint32(900+r.Intn(50)))
			n2 := 1 + r.Intn(40)
			pl.Steps = append(pl.Steps, Step{GapUS: 500, Kind: "announce_many", Peer: 0, V6: v6, N: n2, Attr: &b, Code: plen, Label: fmt.Sprintf("round%d-twin", k)})
		}
		pl.Steps = append(pl.Steps, Step{GapUS: 3*pl.Sim.AggrUS + 3_000_000, Kind: "checkpoint", Label: "packed"})
	}
	pl.TailUS = 500_000
	return pl
}

// manyPrefixes enumerates n distinct prefixes of length plen.
func manyPrefixes(v6 bool, plen uint8, n int, round int) []Prefix {
	out := make([]Prefix, 0, n)
	for i := 0; i < n; i++ {
		if v6 {
			hi := uint64(0x20010db8) << 32
			lo := uint64(0)
			if plen <= 64 {
				hi |= ((uint64(round&0xf)<<12 | uint64(i&0xfff)) << (64 - uint(plen))) & 0xffffffff
			} else {
				hi |= uint64(round & 0xf)
				lo = uint64(i) + 1
			}
			out = append(out, P6(hi, lo, plen))
		} else {
			v := uint32(11+round)<<24 | uint32(i)<<(32-uint(plen))
			out = append(out, P4(byte(v>>24), byte(v>>16), byte(v>>8), byte(v), plen))
		}
	}
	return out
}

type c18Oracle struct {
	rxMark []int
	round  int
}

func (o *c18Oracle) Init(w *World) {
	o.rxMark = make([]int, len(w.Peers))
	w.Data["exec:announce_many"] = func(w *World, i int, s *Step) { o.announceMany(w, i, s) }
}

// announceMany sends the prefixes in as few UPDATEs as fit into 4096 bytes each, back to back.
func (o *c18Oracle) announceMany(w *World, i int, s *Step) {
	p := w.peer(s.Peer)
	if p == nil || p.conn == nil || !p.Established() {
		return
	}
	if !strings.HasSuffix(s.Label, "-twin") {
		for k := range w.Peers {
			o.rxMark[k] = len(w.Peers[k].Rx)
		}
	}
	base := o.round
	if strings.HasSuffix(s.Label, "-twin") {
		base += 100 // far away from the ranges the other rounds' prefixes spill into (IPv4: /8 blocks 111.., IPv6: bit 6 of the round nibble is dropped, so use another length-independent offset below)
	}
	pfxs := manyPrefixes(s.V6, s.Code, s.N, base)
	if strings.HasSuffix(s.Label, "-twin") && s.V6 {
		// IPv6 ranges are selected by 4 bits of the round: shift the twin's host part instead
		pfxs = manyPrefixes(s.V6, s.Code, s.N+3000, o.round)[3000:]
	}
	o.round++
	// unique prefixes only
	seen := map[Prefix]bool{}
	var uniq []Prefix
	for _, q := range pfxs {
		if !seen[q] {
			seen[q] = true
			uniq = append(uniq, q)
		}
	}
	asn4, ap := p.UpdateOpts(s.V6)
	attrs := s.Attr.Attrs(s.V6)
	sent := 0
	for len(uniq) > 0 {
		// find how many NLRI fit
		n := len(uniq)
		var raw []byte
		for {
			var nl []NLRI
			for _, q := range uniq[:n] {
				nl = append(nl, NLRI{Prefix: q})
			}
			raw = EncodeUpdate(UpdateSpec{Announce: nl, Attrs: attrs, V6: s.V6, ASN4: asn4, AddPath: ap})
			if len(raw) <= 4096 || n == 1 {
				break
			}
			n = n * 3 / 4
			if n < 1 {
				n = 1
			}
		}
		if len(raw) > 4096 {
			w.Env.probe("source_attributes_do_not_fit_one_nlri")
			return
		}
		p.Send(raw)
		sent += n
		uniq = uniq[n:]
	}
	w.Env.probeN("prefixes_announced_in_one_window", sent)
	w.Data["c18:sent"] = sent
}

func (o *c18Oracle) AfterStep(w *World, i int, s *Step) {
	if s.Kind != "checkpoint" || s.Label != "packed" {
		return
	}
	dut := w.Plan.DUT
	obs := w.Observe()
	for pi, p := range w.Peers {
		if pi == 0 {
			continue
		}
		po := obs.Peers[pi]
		if po.Est == nil || !p.Established() || po.Est.Con != p.conn {
			continue
		}
		// every message within the limit (also asserted on the stream level by the wire monitor)
		dup := map[Prefix]int{}
		maxLen := 0
		nmsg := 0
		shapes := ""
		for _, m := range p.Rx[o.rxMark[pi]:] {
			if m.Msg.Type != MsgUpdate {
				continue
			}
			nmsg++
			if nmsg <= 12 {
				shapes += fmt.Sprintf("[%dB attrs=%d nlri=%d mp=%d wd=%d]", len(m.Msg.Raw), m.Msg.Update.AttrLen, len(m.Msg.Update.NLRI), len(m.Msg.Update.MPReach), len(m.Msg.Update.Withdrawn)+len(m.Msg.Update.MPUnreach))
			}
			if len(m.Msg.Raw) > maxLen {
				maxLen = len(m.Msg.Raw)
			}
			if len(m.Msg.Raw) > 4096 {
				w.Env.Violate("C18", "message_too_long", "to %s: UPDATE of %d bytes", p.Cfg.Name, len(m.Msg.Raw))
			}
			for _, n := range m.Msg.Update.NLRI {
				dup[n.Prefix]++
			}
			for _, n := range m.Msg.Update.MPReach {
				dup[n.Prefix]++
			}
		}
		var twice []string
		for q, c := range dup {
			if c > 1 {
				twice = append(twice, fmt.Sprintf("%s x%d", q, c))
			}
		}
		sort.Strings(twice)
		if len(twice) > 0 {
			if len(twice) > 5 {
				twice = append(twice[:5], fmt.Sprintf("... %d more", len(twice)-5))
			}
			w.Env.Violate("C18", "prefix_announced_more_than_once", "to %s: %v", p.Cfg.Name, twice)
		}
		w.Env.probeN("update_messages_in_flush", nmsg)
		if maxLen > 3900 {
			w.Env.probe("message_within_200_bytes_of_limit")
		}
		for fi, v6 := range []bool{false, true} {
			if v6 && !p.Cfg.IPv6 || !v6 && !p.Cfg.IPv4 {
				continue
			}
			fam := famOf(po.Est, v6)
			if fam == nil || !po.HasOut[fi] || fam.Queued != 0 {
				continue
			}
			exp := expectedViewCounts(dut, p.Cfg, obs.Loc[fi])
			got := viewCounts(dut, p.Cfg, p, v6)
			if d := diffCounts(exp, got); d != "" {
				if len(d) > 1500 {
					d = d[:1500] + "..."
				}
				w.Env.Violate("C18", "announced_set_differs_from_queued_set", "to %s v6=%v (%d expected from the Loc-RIB, %d prefixes in the Adj-RIB-Out, %d received in %d UPDATEs %s, longest %d bytes): %s", p.Cfg.Name, v6, len(exp), len(po.Out[fi]), len(got), nmsg, shapes, maxLen, d)
			}
		}
	}
}

func (o *c18Oracle) Final(w *World) {}

func init() {
	bgpProps["C18"] = propDef{Gen: genC18, Oracles: func(p *Plan) []Oracle { return []Oracle{&c18Oracle{}} }}
	wireOwners["C18"] = true
}

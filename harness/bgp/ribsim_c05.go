package bgp

import (
	"fmt"
	"sort"
	"strings"

	"github.com/bio-routing/bio-rd/route"
	"github.com/bio-routing/bio-rd/routingtable"
	"github.com/bio-routing/bio-rd/routingtable/adjRIBIn"
	"github.com/bio-routing/bio-rd/routingtable/locRIB"
	"github.com/bio-routing/bio-rd/routingtable/vrf"
	"verif.local/simrt"
)

// ---------------------------------------------------------------------------------------
// C05 (tables): the Adj-RIB-In driven directly - announce / withdraw / flush and clients
// (Loc-RIBs) that register and unregister at any point of the history, under a fixed import
// policy. After every operation each client holds exactly the stored, eligible announcements as
// the policy rewrites them while it is registered, and nothing once it is unregistered.
//
// Eligibility is a function of the candidate and the (constant) session / VRF state:
//   eBGP session and empty AS_PATH; a contributing ASN in the AS_PATH; ORIGINATOR_ID equal to the
//   local router id; a contributing cluster id in the CLUSTER_LIST.

const (
	c05RouterID  = 2          // CandSpec.OrigID is drawn from {0,1,2}
	c05ClusterID = 0x01010102 // CandSpec.Cluster = n gives entries 0x01010100..+n-1: n >= 3 loops
	c05LocalAS   = 65000
)

func genC05T(seed uint64) *Plan {
	r := propRand("C05T", seed)
	pl := &Plan{Prop: "C05", Engine: "ribsim", Seed: seed, DUT: DUTCfg{RouterID: c05RouterID, LocalAS: c05LocalAS, ClusterID: c05ClusterID}}
	pl.Sim = SimCfg{ShuffleMaps: r.Chance(0.6)}
	stem := byte(20 + r.Intn(200))
	pool := []Prefix{P4(stem, 0, 0, 0, 8), P4(stem, 16, 0, 0, 12), P4(stem, 16, 1, 0, 24), P4(stem, 16, 1, 128, 25)}
	pool = pool[:2+r.Intn(3)]
	g := &gen{r: r, prefixes: pool}
	pc := PeerCfg{Name: "in", AS: pick(r, []uint32{c05LocalAS, 65001}), AddPathRX: r.Chance(0.5)}
	pc.Import = g.genPolicy(pick(r, []string{"accept", "rejectsome", "rewrite", "rewrite", "rewrite"}))
	pl.Peers = []PeerCfg{pc}
	nc := 4 + r.Intn(4)
	for i := 0; i < nc; i++ {
		c := genCand(r, false)
		c.EBGP = pc.AS != c05LocalAS
		switch r.Intn(8) {
		case 0:
			c.ASLen = 0 // ineligible on an eBGP session only
		case 1:
			c.OwnAS = true
		}
		if c.EBGP && r.Chance(0.5) {
			c.LocalPref = 0 // the session's default applies
		}
		pl.Cands = append(pl.Cands, c)
	}
	kinds := []string{"announce", "withdraw", "flush", "register", "unregister"}
	wts := map[string]int{"announce": 10, "withdraw": 4, "flush": 1, "register": 3, "unregister": 2}
	n := 4 + r.Intn(30)
	for i := 0; i < n; i++ {
		st := Step{Kind: "in_op", Label: weighted(r, wts, kinds), Pfx: []Prefix{pick(r, pool)}, N: r.Intn(nc), Peer: r.Intn(2)}
		if pc.AddPathRX {
			st.PathID = uint32(1 + r.Intn(3))
		}
		pl.Steps = append(pl.Steps, st)
	}
	return pl
}

type c05Key struct {
	pfx Prefix
	id  uint32
}

type c05TOracle struct {
	in      *adjRIBIn.AdjRIBIn
	ribs    []*locRIB.LocRIB
	reg     []bool
	stored  map[c05Key]int // what the neighbour currently announces: key -> candidate
	pc      PeerCfg
	everReg bool
	lateReg int
}

func (o *c05TOracle) Init(w *World) {
	o.pc = w.Plan.Peers[0]
	v := vrf.NewUntrackedVRF("c05", 0)
	v.AddContributingASN(c05LocalAS)
	v.AddContributingClusterID(c05ClusterID)
	sa := routingtable.SessionAttrs{RouterID: c05RouterID, DefaultLocalPreference: 100, PeerIP: basicPeer(0, o.pc.AS).bnetAddr(), LocalIP: dutLocalIP.Dedup(),
		Type: route.BGPPathType, IBGP: o.pc.AS == c05LocalAS, LocalASN: c05LocalAS, PeerASN: o.pc.AS, AddPathRX: o.pc.AddPathRX, ClusterID: c05ClusterID}
	o.in = adjRIBIn.New(o.pc.Import.Chain(), v, sa)
	simrt.LabelPointer(o.in)
	for i := 0; i < 2; i++ {
		rib := locRIB.New(fmt.Sprintf("c05-%d", i))
		simrt.LabelPointer(rib)
		o.ribs = append(o.ribs, rib)
	}
	o.reg = make([]bool, 2)
	o.stored = map[c05Key]int{}
	w.Data["exec:in_op"] = func(w *World, i int, s *Step) { o.apply(w, i, s) }
}

func (o *c05TOracle) build(w *World, s *Step) *route.Path {
	p := w.Plan.Cands[s.N].build(s.N)
	p.BGPPath.PathIdentifier = s.PathID
	return p
}

func (o *c05TOracle) apply(w *World, i int, s *Step) {
	pfx := s.Pfx[0]
	bp := ToBnetPrefix(pfx)
	switch s.Label {
	case "announce":
		o.in.AddPath(bp, o.build(w, s))
		o.stored[c05Key{pfx, s.PathID}] = s.N
	case "withdraw":
		o.in.RemovePath(bp, o.build(w, s))
		delete(o.stored, c05Key{pfx, s.PathID})
	case "flush":
		o.in.Flush()
		o.stored = map[c05Key]int{}
	case "register":
		if o.reg[s.Peer] {
			return // registering twice is not a history of the property
		}
		if len(o.stored) > 0 {
			o.lateReg++
		}
		o.in.Register(o.ribs[s.Peer])
		o.reg[s.Peer] = true
		o.everReg = true
	case "unregister":
		o.in.Unregister(o.ribs[s.Peer])
		o.reg[s.Peer] = false
	}
	o.check(w, fmt.Sprintf("after step %d (%s)", i, s.Label))
}

func (o *c05TOracle) eligible(c CandSpec) (bool, string) {
	ibgp := o.pc.AS == c05LocalAS
	switch {
	case !ibgp && c.ASLen == 0 && !c.OwnAS:
		return false, "empty AS_PATH on an eBGP session"
	case c.OwnAS:
		return false, "local ASN in AS_PATH"
	case c.OrigID == c05RouterID:
		return false, "ORIGINATOR_ID is the local router id"
	case c.Cluster >= 3:
		return false, "local cluster id in CLUSTER_LIST"
	}
	return true, ""
}

// want: the lines a registered client must hold.
func (o *c05TOracle) want(w *World) ([]string, map[string]string) {
	d := TableDump{}
	why := map[string]string{}
	for k, ci := range o.stored {
		c := w.Plan.Cands[ci]
		p := c.build(ci)
		p.BGPPath.PathIdentifier = k.id
		cp := CanonFromPath(p)
		if ok, reason := o.eligible(c); !ok {
			why[fmt.Sprintf("%d", ci)] = reason
			continue
		}
		if o.pc.AS != c05LocalAS && cp.LocalPref == 0 {
			cp.LocalPref = 100
		}
		out, reject := o.pc.Import.Eval(k.pfx, cp)
		if reject {
			continue
		}
		d[k.pfx] = append(d[k.pfx], out)
	}
	return d.Lines(true, false), why
}

func (o *c05TOracle) check(w *World, when string) {
	want, _ := o.want(w)
	for ci, rib := range o.ribs {
		got := DumpRoutes(rib.Dump()).Lines(true, false)
		exp := want
		if !o.reg[ci] {
			exp = nil
		}
		if strings.Join(got, "\n") == strings.Join(exp, "\n") {
			continue
		}
		miss, extra := diffLines(exp, got)
		as := "client_vs_stored_eligible"
		if !o.reg[ci] {
			as = "unregistered_client_keeps_paths"
		}
		var st []string
		for k, c := range o.stored {
			ok, reason := o.eligible(w.Plan.Cands[c])
			e := "eligible"
			if !ok {
				e = "ineligible: " + reason
			}
			st = append(st, fmt.Sprintf("%s id=%d cand %d (%s)", k.pfx, k.id, c, e))
		}
		sort.Strings(st)
		w.Env.Violate("C05", as, "%s: Loc-RIB %d (registered=%v) differs from the stored eligible announcements as rewritten by the import policy; missing: %v; unexpected: %v; stored: %v",
			when, ci, o.reg[ci], miss, extra, st)
	}
}

func diffLines(want, got []string) (missing, extra []string) {
	cnt := map[string]int{}
	for _, l := range want {
		cnt[l]++
	}
	for _, l := range got {
		if cnt[l] > 0 {
			cnt[l]--
		} else {
			extra = append(extra, l)
		}
	}
	for _, l := range want {
		if cnt[l] > 0 {
			cnt[l]--
			missing = append(missing, l)
		}
	}
	return
}

func (o *c05TOracle) AfterStep(w *World, i int, s *Step) {}
func (o *c05TOracle) Final(w *World) {
	w.Data["nontrivial"] = o.everReg && len(w.Plan.Steps) > 2
	if o.lateReg > 0 {
		w.Env.probeN("client_registered_after_announcements", o.lateReg)
	}
}

func init() {
	// C05 has two plan families: live sessions (bgpsim) and the bare Adj-RIB-In with clients that
	// come and go (ribsim); the seed picks
	c05b := bgpProps["C05"]
	bgpProps["C05"] = propDef{
		Gen: func(seed uint64) *Plan {
			if (seed>>1)%4 == 0 { // run seeds are always odd
				return genC05T(seed)
			}
			return c05b.Gen(seed)
		},
		Oracles: func(p *Plan) []Oracle {
			if p.Engine == "ribsim" {
				return []Oracle{&c05TOracle{}}
			}
			return c05b.Oracles(p)
		},
	}
}

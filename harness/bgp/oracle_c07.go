package bgp

import (
	"fmt"
)

// C07 checks that need quiescence: what a re-established session holds and advertises,
// and that nothing was written to a connection after the DUT closed it.

// viewCounts renders the peer's view of one family, normalised for comparison with the
// reference export of the Loc-RIB (path ids and RR attributes blanked).
func viewCounts(dut DUTCfg, pc PeerCfg, p *Peer, v6 bool) map[string]int {
	out := map[string]int{}
	for k, a := range p.View {
		if k.Pfx.V6 != v6 {
			continue
		}
		c := wireNorm(dut, pc, CanonFromAttrs(a, 0))
		c.OriginatorID, c.ClusterList = 0, nil
		out[fmt.Sprintf("%s %s", k.Pfx, c.Key(false))]++
	}
	return out
}

// expectedViewCounts is the reference export of the actual Loc-RIB as the peer should see it.
func expectedViewCounts(dut DUTCfg, pc PeerCfg, loc TableDump) map[string]int {
	out := map[string]int{}
	for pfx, paths := range loc {
		for _, lp := range selected(pc, paths) {
			v := RefExport(dut, pc, pfx, lp)
			if !v.Send {
				continue
			}
			c := wireNorm(dut, pc, normOut(v.Path, true))
			out[fmt.Sprintf("%s %s", pfx, c.Key(false))]++
		}
	}
	return out
}

func (o *PipelineOracle) c07Checkpoint(w *World, obs *Obs) {
	dut := w.Plan.DUT
	for pi, p := range w.Peers {
		if !o.reest[pi] {
			continue
		}
		po := obs.Peers[pi]
		if po.Est == nil || !p.Established() || po.Est.Con != p.conn {
			continue
		}
		// a re-established session starts from an empty Adj-RIB-In and holds exactly what was
		// announced since (the reference was reset when the old session ended)
		o.checkRefIn(w, pi, "C07", "adj_rib_in_after_reestablish")
		if w.Plan.Params["ap_trigger"] == 1 && p.Cfg.AddPathTX > 0 {
			continue
		}
		for fi, v6 := range []bool{false, true} {
			if v6 && !p.Cfg.IPv6 || !v6 && !p.Cfg.IPv4 {
				continue
			}
			fam := famOf(po.Est, v6)
			if fam == nil || fam.Queued != 0 || !po.HasOut[fi] {
				continue
			}
			exp := expectedViewCounts(dut, p.Cfg, obs.Loc[fi])
			got := viewCounts(dut, p.Cfg, p, v6)
			if d := diffCounts(exp, got); d != "" {
				w.Env.Violate("C07", "readvertise_after_reestablish", "peer %s v6=%v after re-establishment: %s", p.Cfg.Name, v6, d)
			}
		}
	}
}

func (o *PipelineOracle) c07Final(w *World) {
	w.Env.mu.Lock()
	conns := append([]*Conn(nil), w.Env.conns...)
	w.Env.mu.Unlock()
	for _, c := range conns {
		c.mu.Lock()
		n, first := c.WritesAfterClose, c.firstLateWrite
		c.mu.Unlock()
		if n > 0 {
			w.Env.Violate("C07", "write_to_closed_connection", "%s: %d writes after the DUT closed the connection (first at t=%.6fs: %s) - the old Adj-RIB-Out/update sender still receives updates", c.name, n, first.at.Seconds(), first.what)
		}
	}
}

package bgp

// C25: table operations and session control never deadlock (bgpsim part).
// Live sessions exchange routes while API callers replace policies, dispose peers, read
// metrics and dump tables. Operations are released together ("par" steps) and, with the
// scheduling gate on, interleaved by the seeded scheduler at every lock acquisition.
// The oracle is the executor's wedge detection: a waits-for cycle in the logical lock
// table, or an operation / goroutine still blocked after 600 simulated seconds of
// quiescence (bounded liveness; no wall-clock watchdog decides anything).

func genC25(seed uint64) *Plan {
	pr := DefaultProfile()
	pr.MinPeers, pr.MaxPeers = 2, 4
	pr.AddPathTXProb = 0.3
	pr.ExportKinds = []string{"accept", "rewrite"}
	pr.AggrChoices = []int64{5000, 5000, 100_000, 1_000_000} // a fast ticker makes flushes coincide with teardowns
	pr.HoldChoices = []uint16{90, 30}
	pr.MinSteps, pr.MaxSteps = 3, 8
	pr.W = map[string]int{"announce": 10, "withdraw": 3}
	pr.BigGapProb = 0
	pr.FragmentProb = 0
	g := newGen("C25", seed, pr)
	r := g.r
	g.plan.Sim.GateProb = pick(r, []float64{0, 0.2, 0.5, 1})
	g.plan.Sim.Sticky = pick(r, []float64{0, 0.5, 0.8})
	g.plan.Sim.RandomHandoff = r.Chance(0.5)
	g.plan.Sim.Priority = g.plan.Sim.GateProb > 0 && r.Chance(0.5)
	if g.plan.Sim.GateProb > 0 && r.Chance(0.7) {
		// timers that are due within a short window fire together with whatever else happens then
		// (an update sender's tick while a session is being torn down): their goroutines are
		// interleaved by the gate scheduler instead of running one event after the other
		g.plan.Sim.BatchInstant = true
		g.plan.Sim.BatchWindowUS = pick(r, []int64{0, 6000, 20_000})
		if g.plan.Params == nil {
			g.plan.Params = map[string]int64{}
		}
		// the operations of a concurrent step take effect a moment later, as simulator events
		// (otherwise they would be applied between two events and never meet a timer)
		g.plan.Params["arrival_us"] = int64(100 + r.Intn(6000))
	}
	g.connectAll()
	g.workload()
	rounds := 2 + r.Intn(5)
	for k := 0; k < rounds; k++ {
		var sub []Step
		n := 2 + r.Intn(3)
		for j := 0; j < n; j++ {
			pi := r.Intn(len(g.plan.Peers))
			switch r.Intn(10) {
			case 0, 1, 2:
				before := len(g.plan.Steps)
				g.stepAnnounce(pi)
				if len(g.plan.Steps) > before {
					st := g.plan.Steps[len(g.plan.Steps)-1]
					g.plan.Steps = g.plan.Steps[:before]
					st.GapUS, st.Chunks = 0, nil
					sub = append(sub, st)
				}
			case 3:
				before := len(g.plan.Steps)
				g.stepWithdraw(pi)
				st := g.plan.Steps[len(g.plan.Steps)-1]
				g.plan.Steps = g.plan.Steps[:before]
				st.GapUS, st.Chunks = 0, nil
				sub = append(sub, st)
			case 4, 5:
				sub = append(sub, Step{Kind: "export", Peer: pi, Policy: g.genPolicy(pick(r, []string{"accept", "rewrite", "rejectsome", "reject"}))})
			case 6:
				sub = append(sub, Step{Kind: "import", Peer: pi, Policy: g.genPolicy(pick(r, []string{"accept", "rewrite", "rejectsome", "reject"}))})
			case 7:
				sub = append(sub, Step{Kind: "metrics"})
			case 8:
				sub = append(sub, Step{Kind: "dump_api", Peer: pi})
			case 9:
				switch r.Intn(4) {
				case 0:
					sub = append(sub, Step{Kind: "dispose", Peer: pi})
					g.connected[pi] = false
				case 1:
					sub = append(sub, Step{Kind: "peer_notify", Peer: pi, Code: 6, Sub: 2})
					g.connected[pi] = false
				case 2:
					sub = append(sub, Step{Kind: "static_add", Pfx: []Prefix{pick(r, g.staticPool())}, NH: 0x0a630001})
				default:
					sub = append(sub, Step{Kind: "peer_close", Peer: pi, On: true})
					g.connected[pi] = false
				}
			}
		}
		g.add(Step{GapUS: int64(1000 + r.Intn(300_000)), Kind: "par", Par: sub})
		if r.Chance(0.3) {
			for pi := range g.plan.Peers {
				if !g.connected[pi] && r.Chance(0.5) {
					g.add(Step{GapUS: 200_000, Kind: "connect", Peer: pi})
					g.connected[pi] = true
				}
			}
		}
	}
	g.add(Step{GapUS: 2_000_000, Kind: "checkpoint"})
	g.plan.TailUS = 5_000_000
	return g.plan
}

func init() {
	bgpProps["C25"] = propDef{Gen: genC25, Oracles: func(p *Plan) []Oracle { return nil }}
}

package bgp

import (
	"os"

	biolog "github.com/bio-routing/bio-rd/util/log"
	"github.com/sirupsen/logrus"
)

// VERIF_DEBUG_LOG=1 sends bio-rd's own log (state changes with their reasons) to stderr:
// a debugging aid for replays, off in every registered check.
func init() {
	if os.Getenv("VERIF_DEBUG_LOG") == "" {
		return
	}
	l := logrus.New()
	l.SetLevel(logrus.InfoLevel)
	l.SetOutput(os.Stderr)
	biolog.SetLogger(biolog.NewLogrusWrapper(l))
}

package bgp

import (
	"fmt"
	"hash/fnv"
	"runtime"
	"runtime/debug"
	"sort"
	"strings"
	"testing"
	"testing/synctest"
	"time"

	"verif.local/simrt"
)

// RunResult is what one simulated run produced.
type RunResult struct {
	Prop       string         `json:"prop"`
	Engine     string         `json:"engine"`
	Seed       uint64         `json:"seed"`
	Violations []Violation    `json:"violations,omitempty"`
	Probes     map[string]int `json:"probes,omitempty"`
	Faults     map[string]int `json:"faults,omitempty"`
	Stats      simrt.Stats    `json:"stats"`
	TraceHash  string         `json:"trace_hash"`
	ShapeHash  string         `json:"shape_hash"`
	SimTimeNS  int64          `json:"sim_time_ns"`
	Steps      int            `json:"steps"`
	Nontrivial bool           `json:"nontrivial"`
	Panic      string         `json:"panic,omitempty"`
	Trace      []string       `json:"trace,omitempty"`
	WallUS     int64          `json:"wall_us"`
	Inconclusive int          `json:"inconclusive,omitempty"`
	Wedged     bool           `json:"wedged,omitempty"`
	Captured   map[string][]string `json:"-"` // final tables for metamorphic comparisons
}

// Task is an operation issued on its own goroutine so that a blocking (deadlocking)
// product call cannot wedge the driver.
type Task struct {
	Name    string
	Done    bool
	Started time.Duration
	Step    int
	Panic   string
}

// Oracle observes a run.
type Oracle interface {
	Init(w *World)
	AfterStep(w *World, i int, s *Step)
	Final(w *World)
}

// World bundles everything an oracle can look at.
type World struct {
	T     *testing.T
	Env   *Env
	Plan  *Plan
	DUT   *DUT
	Peers []*Peer
	Tasks []*Task
	Oracles []Oracle
	// per-step notes shared between executor and oracles
	StepIdx int
	Data  map[string]any
	goDelay time.Duration // >0 inside a batch-instant "par" step: tasks start after this delay
}

// Go runs fn as a task and waits for quiescence.
func (w *World) Go(name string, fn func()) *Task {
	t := &Task{Name: name, Started: w.Env.Sim.Now(), Step: w.StepIdx}
	w.Tasks = append(w.Tasks, t)
	start := func() {
		go func() {
			fn()
			t.Done = true
		}()
	}
	if w.goDelay > 0 {
		// the operation starts at the instant at which the messages sent in this step arrive, so
		// that API callers and the sessions' goroutines are runnable together (race build)
		w.Env.Sim.After(w.goDelay, 0, "task "+name, start)
		return t
	}
	start()
	w.Env.Sim.Settle()
	return t
}

// Stalled reports whether some neighbour currently does not read (block_write fault active).
func (w *World) Stalled() bool {
	for _, p := range w.Peers {
		if p.conn != nil {
			p.conn.mu.Lock()
			b := p.conn.wBlocked
			p.conn.mu.Unlock()
			if b {
				return true
			}
		}
	}
	return false
}

// PendingTasks lists tasks that have not returned.
func (w *World) PendingTasks() []*Task {
	var out []*Task
	for _, t := range w.Tasks {
		if !t.Done {
			out = append(out, t)
		}
	}
	return out
}

func (w *World) peer(i int) *Peer {
	if i < 0 || i >= len(w.Peers) {
		return nil
	}
	return w.Peers[i]
}

// exec performs one step.
func (w *World) exec(i int, s *Step) {
	e := w.Env
	p := w.peer(s.Peer)
	switch s.Kind {
	case "wait", "":
	case "checkpoint":
		// an observation point for oracles that compare a neighbour's view with the DUT's tables:
		// bytes the DUT has already written (a withdrawal caused by a timer just before this
		// step, say) are delivered first, otherwise the view lags behind by the network delay
		// ... and so are the bytes the neighbours have sent (a message cut into chunks with pauses
		// may still be arriving)
		for k := 0; k < 40; k++ {
			pending := false
			for _, q := range w.Peers {
				if q.conn != nil && q.conn.pendingPeerTx > 0 && !q.conn.ClosedByDUT() && !w.Stalled() {
					pending = true
				}
			}
			latest := e.latestDeliveryToPeers()
			if !pending && latest < e.Sim.Now() {
				break
			}
			if pending {
				e.Sim.RunFor(us(5000))
				continue
			}
			e.Sim.RunUntil(latest)
			e.Sim.RunFor(us(1))
		}
	case "connect":
		// a (re)connecting peer has forgotten its previous connection (peer restart): the old
		// one is reset first. Simultaneous connections are the business of "connect2" (C24).
		if p != nil && w.goDelay > 0 {
			if p.conn == nil || p.conn.peerClosed || p.conn.ClosedByDUT() {
				e.Sim.After(w.goDelay, 40, "", func() { p.Connect() })
			}
		} else if p != nil {
			if p.conn != nil && !p.conn.peerClosed && !p.conn.ClosedByDUT() {
				p.Send(EncodeNotification(6, 4, nil)) // Cease / administrative reset
				for k := 0; k < 200 && p.conn.pendingPeerTx > 0; k++ {
					e.Sim.RunFor(us(1000))
				}
				e.Sim.Settle()
				p.CloseConn(false)
				e.Sim.Settle()
			}
			p.Connect()
		}
	case "connect2":
		if p != nil {
			p.Connect()
		}
	case "par":
		// release several operations together: none of them runs before all are started; with the
		// scheduling gate on, the simulator then interleaves them at every lock boundary
		e.Sim.HoldSettle++
		if w.Plan.Sim.BatchInstant {
			// everything of this step happens at one later instant: messages arrive, connections
			// close and API calls start together
			w.goDelay = us(w.Plan.Params["arrival_us"])
			for _, q := range w.Peers {
				q.sendDelay = w.goDelay
			}
		}
		for k := range s.Par {
			w.exec(i, &s.Par[k])
		}
		d := w.goDelay
		w.goDelay = 0
		for _, q := range w.Peers {
			q.sendDelay = 0
		}
		e.Sim.HoldSettle--
		if d > 0 {
			e.Sim.RunFor(d)
		} else {
			e.Sim.Settle()
		}
		e.probe("concurrent_step")
	case "metrics":
		w.Go("Metrics()", func() { w.DUT.Srv.Metrics() })
	case "dump_api":
		if p != nil {
			w.Go(fmt.Sprintf("GetRIBIn/GetRIBOut(%s)", p.Cfg.Name), func() {
				if in := w.DUT.Srv.GetRIBIn(w.DUT.VRF, p.Cfg.bnetAddr(), 1, 1); in != nil {
					in.Dump()
				}
				if out := w.DUT.Srv.GetRIBOut(w.DUT.VRF, p.Cfg.bnetAddr(), 1, 1); out != nil {
					out.Dump()
				}
				w.DUT.RIB4.Dump()
			})
		}
	case "peer_auto":
		if p != nil {
			p.AutoOpen = s.On
			if s.Open != nil {
				o := *s.Open
				p.OpenOverride = &o
			}
		}
	case "send_open":
		if p != nil && p.conn != nil {
			if s.Open != nil {
				o := *s.Open
				p.OpenOverride = &o
			} else if p.Cfg.ManualOpen {
				p.OpenOverride = nil // hand-scripted peers send exactly what the step says
			}
			p.Send(EncodeOpen(p.openSpec()))
			if p.state == psIdle || p.state == psOpenSent {
				p.state = psOpenConfirm // our OPEN is out; the DUT's KEEPALIVE completes the handshake
			}
		}
	case "announce", "withdraw":
		if p == nil || p.conn == nil {
			return
		}
		if !p.Established() {
			// a well-behaved peer sends UPDATEs only in Established (messages in other states are
			// sent with "raw" steps by the properties that are about them)
			e.probe("update_not_sent_peer_not_established")
			return
		}
		raw := w.encodeUpdate(p, s)
		if s.Mutation != nil {
			raw = applyMutation(raw, s.Mutation)
			e.fault("corrupt_" + s.Mutation.Kind)
		}
		if len(s.Chunks) > 0 {
			p.SendChunked(raw, s.Chunks, us(s.ChunkGapUS))
		} else {
			p.Send(raw)
		}
	case "raw":
		if p == nil || p.conn == nil {
			return
		}
		raw := mustHex(s.Hex)
		if len(s.Chunks) > 0 {
			p.SendChunked(raw, s.Chunks, us(s.ChunkGapUS))
		} else {
			p.Send(raw)
		}
	case "keepalive":
		if p != nil && p.conn != nil {
			p.Send(EncodeKeepalive())
			if p.Cfg.ManualOpen && p.Established() && !p.Silent {
				p.kaGen++
				p.startKeepalives(p.conn)
			}
		}
	case "peer_close":
		if p != nil {
			if w.goDelay > 0 {
				on := s.On
				e.Sim.After(w.goDelay, 40, "", func() { p.CloseConn(on) })
			} else {
				p.CloseConn(s.On)
			}
			e.fault("peer_close")
		}
	case "peer_notify":
		if p != nil && p.conn != nil {
			p.Send(EncodeNotification(s.Code, s.Sub, nil))
			e.fault("peer_notification")
		}
	case "peer_silent":
		if p != nil {
			p.Silent = s.On
			if s.On {
				e.fault("peer_silent")
			} else if p.conn != nil && p.Established() {
				p.kaGen++
				p.startKeepalives(p.conn)
			}
		}
	case "dial_refuse":
		// connections the DUT dials to this neighbour are refused from now on (or accepted again)
		if p != nil {
			p.RefuseDial = s.On
			if s.On {
				e.fault("dial_refused")
			}
		}
	case "fail_write":
		if p != nil && p.conn != nil {
			p.conn.failWrites(s.N)
		}
	case "block_write":
		if p != nil && p.conn != nil {
			p.conn.blockWrites(s.On)
		}
	case "import":
		if p != nil {
			pol := s.Policy
			w.Go(fmt.Sprintf("ReplaceImportFilterChain(%s)", p.Cfg.Name), func() {
				w.DUT.Srv.ReplaceImportFilterChain(w.DUT.VRF, p.Cfg.bnetAddr(), pol.Chain())
			})
			p.Cfg.Import = pol
		}
	case "export":
		if p != nil {
			pol := s.Policy
			w.Go(fmt.Sprintf("ReplaceExportFilterChain(%s)", p.Cfg.Name), func() {
				w.DUT.Srv.ReplaceExportFilterChain(w.DUT.VRF, p.Cfg.bnetAddr(), pol.Chain())
			})
			p.Cfg.Export = pol
		}
	case "dispose":
		if p != nil {
			w.Go(fmt.Sprintf("DisposePeer(%s)", p.Cfg.Name), func() {
				w.DUT.Srv.DisposePeer(w.DUT.VRF, p.Cfg.bnetAddr())
			})
			e.fault("dispose_peer")
		}
	case "static_add":
		for _, pfx := range s.Pfx {
			pfx := pfx
			w.Go("static_add", func() { w.DUT.AddStatic(pfx, s.NH) })
		}
	case "static_del":
		for _, pfx := range s.Pfx {
			pfx := pfx
			w.Go("static_del", func() { w.DUT.DelStatic(pfx, s.NH) })
		}
	default:
		if h, ok := w.Data["exec:"+s.Kind].(func(*World, int, *Step)); ok {
			h(w, i, s)
			return
		}
		panic("unknown step kind " + s.Kind)
	}
	e.Sim.Settle()
}

func (w *World) encodeUpdate(p *Peer, s *Step) []byte {
	asn4, ap := p.UpdateOpts(s.V6)
	u := UpdateSpec{V6: s.V6, ForceMP: s.ForceMP, ASN4: asn4, AddPath: ap, AlsoNextHop: s.AlsoNH}
	var nl []NLRI
	for i, pfx := range s.Pfx {
		id := s.PathID
		if i < len(s.PathIDs) {
			id = s.PathIDs[i]
		}
		nl = append(nl, NLRI{Prefix: pfx, PathID: id})
	}
	if s.Kind == "withdraw" {
		u.Withdraw = nl
	} else {
		u.Announce = nl
		if s.Attr != nil {
			u.Attrs = s.Attr.Attrs(s.V6)
		}
		for i, pfx := range s.Wd {
			id := uint32(0)
			if i < len(s.WdIDs) {
				id = s.WdIDs[i]
			}
			u.Withdraw = append(u.Withdraw, NLRI{Prefix: pfx, PathID: id})
		}
	}
	return EncodeUpdate(u)
}

func applyMutation(raw []byte, m *Mutation) []byte {
	out := append([]byte(nil), raw...)
	switch m.Kind {
	case "set_byte":
		if m.Off >= 0 && m.Off < len(out) {
			out[m.Off] = byte(m.Val)
		}
	case "truncate":
		if m.Off >= 19 && m.Off < len(out) {
			out = out[:m.Off]
			out[16], out[17] = byte(len(out)>>8), byte(len(out))
		}
	case "set_len":
		out[16], out[17] = byte(m.Val>>8), byte(m.Val)
	}
	return out
}

// RunOpts control a run.
type RunOpts struct {
	KeepTrace bool
	Oracles   func(p *Plan) []Oracle
	Setup     func(w *World) // optional extra set-up after the DUT exists
}

// RunPlan executes a plan inside a fresh synctest bubble with the real bio-rd code.
func RunPlan(t *testing.T, plan *Plan, opt RunOpts) (res *RunResult) {
	res = &RunResult{Prop: plan.Prop, Engine: plan.Engine, Seed: plan.Seed}
	start := time.Now()
	defer func() { res.WallUS = time.Since(start).Microseconds() }()
	if simrt.RaceMode {
		// race build: the Go scheduler (one P, no asynchronous preemption) is part of the schedule;
		// a garbage collection in the middle of a run would requeue the running goroutine at a
		// point that depends on the process' heap history, so collections happen between runs
		runtime.GC()
		old := debug.SetGCPercent(-1)
		defer debug.SetGCPercent(old)
	}
	func() {
		defer func() {
			if r := recover(); r != nil {
				msg := fmt.Sprint(r)
				if strings.Contains(msg, "deadlock: main bubble goroutine has exited") {
					return
				}
				res.Panic = msg + "\n" + string(debug.Stack())
			}
		}()
		synctest.Test(t, func(t *testing.T) {
			runInBubble(t, plan, opt, res)
		})
	}()
	return res
}

func runInBubble(t *testing.T, plan *Plan, opt RunOpts, res *RunResult) {
	cfg := plan.Sim.Config()
	env := NewEnv(plan.Seed, cfg)
	env.PlanProp = plan.Prop
	defer env.Close()
	env.KeepTrace = opt.KeepTrace
	w := &World{T: t, Env: env, Plan: plan, Data: map[string]any{}}
	defer func() {
		// collect whatever we have, also when an oracle or the harness panicked
		res.Violations = append(res.Violations, env.Violations...)
		res.Probes = env.Probes
		res.Faults = env.Faults
		res.Stats = env.Sim.Stats()
		res.TraceHash = env.TraceHash()
		res.SimTimeNS = int64(env.Sim.Now())
		if v, ok := w.Data["sim_time_ns"].(int64); ok {
			res.SimTimeNS = v // engines with their own clock seam (isissim: the mock clock)
		}
		res.ShapeHash = shapeHash(w)
		if c, ok := w.Data["captured"].(map[string][]string); ok {
			res.Captured = c
		}
		if opt.KeepTrace {
			res.Trace = env.TraceDump()
		}
	}()
	w.DUT = NewDUT(env, plan.DUT)
	for _, pc := range plan.Peers {
		p, err := w.DUT.AddPeer(pc)
		if err != nil {
			env.Violate("HARNESS", "add_peer", "%v", err)
			return
		}
		w.Peers = append(w.Peers, p)
	}
	if opt.Setup != nil {
		opt.Setup(w)
	}
	if opt.Oracles != nil {
		w.Oracles = opt.Oracles(plan)
	}
	for _, o := range w.Oracles {
		o.Init(w)
	}
	for i := range plan.Steps {
		s := &plan.Steps[i]
		w.StepIdx = i
		env.mu.Lock()
		env.curStep = i
		env.mu.Unlock()
		if s.GapUS > 0 {
			env.Sim.RunFor(us(s.GapUS))
		}
		if !w.Stalled() {
			for _, o := range w.Oracles {
				if b, ok := o.(interface{ BeforeStep(*World, int, *Step) }); ok {
					b.BeforeStep(w, i, s)
				}
			}
		}
		w.exec(i, s)
		if w.checkWedged() {
			res.Wedged = true
			return
		}
		if w.Stalled() {
			// a neighbour has stopped reading: the DUT goroutine that writes to it may hold table
			// locks (by design), so the driver must not read the tables now; the oracles look again
			// after the stall has ended
			env.probe("observation_skipped_during_stall")
		} else {
			for _, o := range w.Oracles {
				o.AfterStep(w, i, s)
			}
		}
		res.Steps++
	}
	w.StepIdx = len(plan.Steps)
	env.mu.Lock()
	env.curStep = len(plan.Steps)
	env.mu.Unlock()
	if plan.TailUS > 0 {
		env.Sim.RunFor(us(plan.TailUS))
	}
	if w.checkWedged() {
		res.Wedged = true
		return
	}
	for _, o := range w.Oracles {
		o.Final(w)
	}
	res.Nontrivial = nontrivial(w)
}

// nontrivial: at least one route was installed or message exchanged, and at least one
// fault or scheduling alternative actually fired.
func nontrivial(w *World) bool {
	// engines without a network (ribsim) state their own rule
	if v, ok := w.Data["nontrivial"].(bool); ok {
		return v
	}
	e := w.Env
	st := e.Sim.Stats()
	activity := len(e.writes) > 2
	alt := len(e.Faults) > 0 || st.TieShuffles > 0 || st.MapShuffles > 0 || st.SchedAlternates > 0
	return activity && alt
}

// shapeHash abstracts a run into its shape: step kinds, fault kinds fired, probe names
// hit, final session states and message type sequence per connection.
func shapeHash(w *World) string {
	h := fnv.New64a()
	if v, ok := w.Data["shape"].(string); ok {
		fmt.Fprint(h, v)
	}
	if w.Plan != nil {
		fmt.Fprint(h, w.Plan.Note, ";")
		for _, s := range w.Plan.Steps {
			// order of magnitude of the gap: the same steps 1 ms or 1 s apart are different schedules
			mag := 0
			for g := s.GapUS; g > 0; g >>= 2 {
				mag++
			}
			fmt.Fprintf(h, "%s/%s/%d/%d/%d;", s.Kind, s.Label, s.Peer, len(s.Pfx), mag)
		}
	}
	var ks []string
	for k, v := range w.Env.Faults {
		ks = append(ks, fmt.Sprintf("f:%s=%d", k, v))
	}
	for k := range w.Env.Probes {
		ks = append(ks, "p:"+k)
	}
	sort.Strings(ks)
	for _, k := range ks {
		fmt.Fprint(h, k, ";")
	}
	for _, p := range w.Peers {
		fmt.Fprintf(h, "%s:", p.Cfg.Name)
		for _, m := range p.Rx {
			fmt.Fprintf(h, "%d", m.Msg.Type)
		}
		fmt.Fprintf(h, "|%d|%d;", len(p.View), p.state)
	}
	fmt.Fprintf(h, "w%d", len(w.Env.writes))
	return fmt.Sprintf("%016x", h.Sum64())
}

// checkWedged decides at a quiescent point whether the DUT is wedged: an API operation
// that has not returned, or a goroutine parked on a simulator mutex, although nothing is
// runnable. Neither needs time to pass, so at quiescence both mean "blocked forever" unless
// a timer releases them; a grace period of simulated time well above every protocol timer
// is granted first. A wedged DUT must not be touched by the driver any more (the driver
// would block on the same locks), so the run ends here. The finding belongs to C25.
func (w *World) checkWedged() bool {
	stuck := func() bool { return len(w.PendingTasks()) > 0 || len(w.Env.Sim.BlockedOnLocks()) > 0 }
	if !stuck() {
		return false
	}
	w.Env.Sim.RunFor(600 * time.Second)
	if !stuck() {
		w.Env.probe("slow_operation_completed_after_time_passed")
		return false
	}
	var sb strings.Builder
	for _, t := range w.PendingTasks() {
		fmt.Fprintf(&sb, "operation %s (issued at step %d) has not returned after 600 simulated seconds of quiescence\n", t.Name, t.Step)
	}
	cyc := w.Env.Sim.LockCycle()
	as := "operation_never_returns"
	if len(cyc) > 0 {
		as = "lock_cycle"
		fmt.Fprintf(&sb, "waits-for cycle between %d goroutines:\n", len(cyc))
		for _, b := range cyc {
			fmt.Fprintf(&sb, "-- goroutine %d waits (write=%v) for a lock held by %v at:\n%s", b.G, b.Write, b.Owners, indent(firstFrames(b.Stack, 8)))
		}
	} else {
		for _, b := range w.Env.Sim.BlockedOnLocks() {
			fmt.Fprintf(&sb, "-- goroutine %d parked on a lock held by %v at:\n%s", b.G, b.Owners, indent(firstFrames(b.Stack, 8)))
		}
		if len(w.PendingTasks()) == 0 {
			as = "lock_wait_forever"
		}
	}
	w.Env.Violate("C25", as, "%s", sb.String())
	w.Env.probe("wedged")
	return true
}

func firstFrames(stack string, n int) string {
	ls := strings.Split(strings.TrimSpace(stack), "\n")
	if len(ls) > n {
		ls = ls[:n]
	}
	return strings.Join(ls, "\n") + "\n"
}

func indent(s string) string {
	return "     " + strings.ReplaceAll(strings.TrimRight(s, "\n"), "\n", "\n     ") + "\n"
}

package bgp

import (
	"crypto/sha256"
	"encoding/hex"
	"fmt"
	"net"
	"os"
	"sort"
	"testing/synctest"
	"time"

	"verif.local/simrt"
)

var debugWire = os.Getenv("VERIF_DEBUG_WIRE") != ""

// Violation is one failed assertion.
type Violation struct {
	Prop      string `json:"prop"`
	Assertion string `json:"assertion"`
	Detail    string `json:"detail"`
	SimTimeNS int64  `json:"sim_time_ns"`
	Step      int    `json:"step"`
}

type writeRec struct {
	at   time.Duration
	conn string
	seq  int
	hash string
	n    int
}

// Env is the world of one simulated run.
type Env struct {
	Sim  *simrt.Sim
	Rng  *simrt.Rand // harness choices that are not part of the plan (delivery delays)
	Seed uint64

	mu         simrt.InternalLock // a real mutex; in the race build a lock the detector cannot see
	writes     []writeRec
	traceLines []string
	Violations []Violation
	Probes     map[string]int
	Faults     map[string]int
	conns      []*Conn
	curStep    int
	KeepTrace  bool
	maxViol    int
	PlanProp   string // property of the plan being executed

	// fsmlog.go
	Transitions    []fsmTransition
	peerDeliveries int64
	peerCloses     int64
	capturing      bool
}

// NewEnv creates the environment. Must be called inside the synctest bubble.
func NewEnv(seed uint64, cfg simrt.Config) *Env {
	cfg.Seed = seed
	e := &Env{
		Seed:    seed,
		Rng:     simrt.NewRand(seed ^ 0x1234567811223344),
		Probes:  map[string]int{},
		Faults:  map[string]int{},
		maxViol: 20,
	}
	e.Sim = simrt.New(cfg)
	e.Sim.Wait = synctest.Wait
	e.Sim.AdvanceClock = func(d time.Duration) { time.Sleep(d) }
	return e
}

func (e *Env) Close() { e.stopFSMLog(); e.Sim.Close() }

func (e *Env) probe(name string) {
	e.mu.Lock()
	e.Probes[name]++
	e.mu.Unlock()
}

func (e *Env) probeN(name string, n int) {
	e.mu.Lock()
	e.Probes[name] += n
	e.mu.Unlock()
}

func (e *Env) fault(name string) {
	e.mu.Lock()
	e.Faults[name]++
	e.mu.Unlock()
}

func (e *Env) trace(s string) {
	e.mu.Lock()
	e.traceLines = append(e.traceLines, fmt.Sprintf("%012d %s", int64(e.Sim.Now()), s))
	e.mu.Unlock()
}

// Violate records a failed assertion.
func (e *Env) Violate(prop, assertion, format string, args ...any) {
	e.mu.Lock()
	defer e.mu.Unlock()
	if len(e.Violations) >= e.maxViol {
		return
	}
	e.Violations = append(e.Violations, Violation{Prop: prop, Assertion: assertion,
		Detail: fmt.Sprintf(format, args...), SimTimeNS: int64(e.Sim.Now()), Step: e.curStep})
}

func (e *Env) recordWrite(c *Conn, seq int, data []byte) {
	now := e.Sim.Now()
	if debugWire {
		fmt.Fprintf(os.Stderr, "WIRE %012d %s %d %x\n", int64(now), c.name, seq, data)
	}
	e.mu.Lock()
	e.writes = append(e.writes, writeRec{at: now, conn: c.name, seq: seq, hash: shortHash(data), n: len(data)})
	e.mu.Unlock()
}

// scheduleToPeer delivers bytes written by the DUT to the peer handler after the
// connection's delay; per connection order is preserved (TCP).
func (e *Env) scheduleToPeer(c *Conn, data []byte) {
	c.mu.Lock()
	d := c.minDelay
	if c.jitter > 0 {
		d += time.Duration(c.rng.Uint64() % uint64(c.jitter))
	}
	at := e.Sim.Now() + d
	if at < c.lastDeliver {
		at = c.lastDeliver
	}
	c.lastDeliver = at
	h := c.onData
	c.mu.Unlock()
	if h == nil {
		return
	}
	e.Sim.At(at, 50, "", func() { h(c, data) })
}

// latestDeliveryToPeers is the simulated time by which everything the DUT has written so far
// will have reached the scripted neighbours.
func (e *Env) latestDeliveryToPeers() time.Duration {
	e.mu.Lock()
	conns := append([]*Conn(nil), e.conns...)
	e.mu.Unlock()
	var latest time.Duration = -1
	for _, c := range conns {
		c.mu.Lock()
		if c.onData != nil && !c.peerClosed && c.lastDeliver > latest {
			latest = c.lastDeliver
		}
		c.mu.Unlock()
	}
	return latest
}

func (e *Env) scheduleCloseToPeer(c *Conn) {
	c.mu.Lock()
	at := e.Sim.Now() + c.minDelay
	if at < c.lastDeliver {
		at = c.lastDeliver
	}
	c.lastDeliver = at
	h := c.onClose
	c.mu.Unlock()
	if h == nil {
		return
	}
	e.Sim.At(at, 51, "", func() { h(c) })
}

// NewConn creates a connection between the DUT (local) and a peer (remote).
func (e *Env) NewConn(name string, local, remote *net.TCPAddr, minDelay, jitter time.Duration) *Conn {
	e.mu.Lock()
	id := len(e.conns)
	c := &Conn{env: e, id: id, name: fmt.Sprintf("%s#%d", name, id), local: local, remote: remote,
		rng: simrt.NewRand(e.Seed ^ (uint64(id+1) * 0x9e3779b97f4a7c15)), minDelay: minDelay, jitter: jitter}
	e.conns = append(e.conns, c)
	e.mu.Unlock()
	return c
}

// TraceHash is a hash over the canonical trace (every DUT write with its simulated
// time, connection and content hash, plus explicit trace lines).
func (e *Env) TraceHash() string {
	e.mu.Lock()
	defer e.mu.Unlock()
	ws := append([]writeRec(nil), e.writes...)
	sort.SliceStable(ws, func(i, j int) bool {
		if ws[i].at != ws[j].at {
			return ws[i].at < ws[j].at
		}
		if ws[i].conn != ws[j].conn {
			return ws[i].conn < ws[j].conn
		}
		return ws[i].seq < ws[j].seq
	})
	h := sha256.New()
	for _, w := range ws {
		fmt.Fprintf(h, "%d %s %d %s %d\n", int64(w.at), w.conn, w.seq, w.hash, w.n)
	}
	lines := append([]string(nil), e.traceLines...)
	sort.Strings(lines)
	for _, l := range lines {
		fmt.Fprintln(h, l)
	}
	return hex.EncodeToString(h.Sum(nil)[:12])
}

// TraceDump returns the canonical trace as text (for determinism diffs and replays).
func (e *Env) TraceDump() []string {
	e.mu.Lock()
	defer e.mu.Unlock()
	var out []string
	for _, w := range e.writes {
		out = append(out, fmt.Sprintf("%012d W %s %d %s %d", int64(w.at), w.conn, w.seq, w.hash, w.n))
	}
	out = append(out, e.traceLines...)
	sort.Strings(out)
	return out
}

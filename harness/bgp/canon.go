package bgp

import (
	"fmt"
	"sort"
	"strings"

	bnet "github.com/bio-routing/bio-rd/net"
	"github.com/bio-routing/bio-rd/route"
)

// CanonPath is the harness' own, value-typed picture of a path.
type CanonPath struct {
	Type         uint8
	NextHop      string
	Source       string
	LocalPref    uint32
	MED          uint32
	Origin       uint8
	ASPath       []Segment
	Communities  []uint32
	LargeComms   []LargeCommunity
	OriginatorID uint32
	ClusterList  []uint32
	OTC          uint32
	PathID       uint32
	EBGP         bool
	AtomicAggr   bool
	Unknown      []UnknownAttr
	Hidden       uint8
	Redist       uint8
}

// Tag is the unique announcement tag: the last ASN of the AS_PATH (0 if none).
func (c CanonPath) Tag() uint32 {
	for i := len(c.ASPath) - 1; i >= 0; i-- {
		if n := len(c.ASPath[i].ASNs); n > 0 {
			return c.ASPath[i].ASNs[n-1]
		}
	}
	for _, l := range c.LargeComms {
		if l.G == tagCommunityAdmin {
			return l.L2
		}
	}
	return 0
}

// tagCommunityAdmin marks the large community that carries the tag of an announcement
// that has no AS_PATH to carry it.
const tagCommunityAdmin = 64999

func (c CanonPath) ASPathString() string {
	var sb strings.Builder
	for _, s := range c.ASPath {
		if s.Type == 1 {
			sb.WriteString("{")
		} else {
			sb.WriteString("(")
		}
		for i, a := range s.ASNs {
			if i > 0 {
				sb.WriteByte(' ')
			}
			fmt.Fprintf(&sb, "%d", a)
		}
		if s.Type == 1 {
			sb.WriteString("}")
		} else {
			sb.WriteString(")")
		}
	}
	return sb.String()
}

// ASPathLen is the RFC 4271 path length (a set counts 1).
func (c CanonPath) ASPathLen() int {
	n := 0
	for _, s := range c.ASPath {
		if s.Type == 1 {
			n++
		} else {
			n += len(s.ASNs)
		}
	}
	return n
}

// Key renders all attributes relevant for equality of stored paths.
func (c CanonPath) Key(withID bool) string {
	var sb strings.Builder
	fmt.Fprintf(&sb, "t%d nh=%s src=%s lp=%d med=%d o=%d as=%s", c.Type, c.NextHop, c.Source, c.LocalPref, c.MED, c.Origin, c.ASPathString())
	if len(c.Communities) > 0 {
		fmt.Fprintf(&sb, " com=%v", c.Communities)
	}
	if len(c.LargeComms) > 0 {
		fmt.Fprintf(&sb, " lcom=%v", c.LargeComms)
	}
	if c.OriginatorID != 0 {
		fmt.Fprintf(&sb, " orig=%d", c.OriginatorID)
	}
	if len(c.ClusterList) > 0 {
		fmt.Fprintf(&sb, " cl=%v", c.ClusterList)
	}
	if c.OTC != 0 {
		fmt.Fprintf(&sb, " otc=%d", c.OTC)
	}
	if c.EBGP {
		sb.WriteString(" ebgp")
	}
	if c.AtomicAggr {
		sb.WriteString(" aa")
	}
	for _, u := range c.Unknown {
		fmt.Fprintf(&sb, " u%d:%x:%x", u.Type, u.Flags&0xe0, u.Value)
	}
	if withID {
		fmt.Fprintf(&sb, " id=%d", c.PathID)
	}
	return sb.String()
}

func ipString(ip *bnet.IP) string {
	if ip == nil {
		return "<nil>"
	}
	return ip.String()
}

// CanonFromPath converts a bio-rd path into the harness representation.
func CanonFromPath(p *route.Path) CanonPath {
	c := CanonPath{Type: p.Type, Hidden: p.HiddenReason, Redist: p.RedistributedFrom}
	if p.Type == route.StaticPathType && p.StaticPath != nil {
		c.NextHop = ipString(p.StaticPath.NextHop)
		return c
	}
	b := p.BGPPath
	if b == nil {
		return c
	}
	c.PathID = b.PathIdentifier
	if b.BGPPathA != nil {
		a := b.BGPPathA
		c.NextHop = ipString(a.NextHop)
		c.Source = ipString(a.Source)
		c.LocalPref, c.MED, c.Origin = a.LocalPref, a.MED, a.Origin
		c.OriginatorID, c.OTC, c.EBGP, c.AtomicAggr = a.OriginatorID, a.OnlyToCustomer, a.EBGP, a.AtomicAggregate
	}
	if b.ASPath != nil {
		for _, s := range *b.ASPath {
			if len(s.ASNs) == 0 {
				continue // an empty segment carries no information (well-formedness of AS_PATH encoding is C17, not simulated)
			}
			c.ASPath = append(c.ASPath, Segment{Type: s.Type, ASNs: append([]uint32(nil), s.ASNs...)})
		}
	}
	if b.Communities != nil {
		c.Communities = append([]uint32(nil), (*b.Communities)...)
	}
	if b.LargeCommunities != nil {
		for _, l := range *b.LargeCommunities {
			c.LargeComms = append(c.LargeComms, LargeCommunity{l.GlobalAdministrator, l.DataPart1, l.DataPart2})
		}
	}
	if b.ClusterList != nil {
		c.ClusterList = append([]uint32(nil), (*b.ClusterList)...)
	}
	for _, u := range b.UnknownAttributes {
		fl := uint8(0)
		if u.Optional {
			fl |= 0x80
		}
		if u.Transitive {
			fl |= 0x40
		}
		if u.Partial {
			fl |= 0x20
		}
		c.Unknown = append(c.Unknown, UnknownAttr{Flags: fl, Type: u.TypeCode, Value: append([]byte(nil), u.Value...)})
	}
	return c
}

// CanonFromAttrs converts decoded wire attributes to the harness representation.
func CanonFromAttrs(a Attrs, pathID uint32) CanonPath {
	c := CanonPath{Type: route.BGPPathType, PathID: pathID}
	if a.HasNextHop {
		if a.NextHopV6 {
			c.NextHop = bnetIPv6String(a.NextHop)
		} else {
			c.NextHop = fmt.Sprintf("%d.%d.%d.%d", a.NextHop[0], a.NextHop[1], a.NextHop[2], a.NextHop[3])
		}
	}
	c.LocalPref, c.MED, c.Origin = a.LocalPref, a.MED, a.Origin
	for _, s := range a.ASPath {
		if len(s.ASNs) > 0 {
			c.ASPath = append(c.ASPath, s)
		}
	}
	c.Communities = a.Communities
	c.LargeComms = a.LargeComms
	c.OriginatorID = a.OriginatorID
	c.ClusterList = a.ClusterList
	c.OTC = a.OTC
	c.AtomicAggr = a.AtomicAggr
	c.Unknown = a.Unknown
	return c
}

func bnetIPv6String(b [16]byte) string {
	ip, err := bnet.IPFromBytes(b[:])
	if err != nil {
		return "?"
	}
	return ip.String()
}

// ToBnetPrefix converts a harness prefix to a bio-rd prefix.
func ToBnetPrefix(p Prefix) *bnet.Prefix {
	var ip bnet.IP
	if p.V6 {
		ip, _ = bnet.IPFromBytes(p.Addr[:16])
	} else {
		ip = bnet.IPv4FromOctets(p.Addr[0], p.Addr[1], p.Addr[2], p.Addr[3])
	}
	return bnet.NewPfx(ip, p.Len).Dedup()
}

// FromBnetPrefix converts a bio-rd prefix to a harness prefix.
func FromBnetPrefix(p *bnet.Prefix) Prefix {
	a := p.Addr()
	b := a.Bytes()
	out := Prefix{Len: p.Len()}
	if a.IsIPv4() {
		copy(out.Addr[:4], b)
	} else {
		out.V6 = true
		copy(out.Addr[:], b)
	}
	return out
}

// TableDump is a canonical dump of a table: prefix -> paths in table order.
type TableDump map[Prefix][]CanonPath

// DumpRoutes converts a list of routes.
func DumpRoutes(rs []*route.Route) TableDump {
	out := TableDump{}
	for _, r := range rs {
		pfx := FromBnetPrefix(r.Prefix())
		for _, p := range r.Paths() {
			out[pfx] = append(out[pfx], CanonFromPath(p))
		}
	}
	return out
}

// Lines renders a dump as sorted lines (for diffs / equality).
func (d TableDump) Lines(withID bool, ordered bool) []string {
	var out []string
	for pfx, ps := range d {
		keys := make([]string, len(ps))
		for i, p := range ps {
			keys[i] = p.Key(withID)
		}
		if !ordered {
			sort.Strings(keys)
		}
		for i, k := range keys {
			if ordered {
				out = append(out, fmt.Sprintf("%s [%d] %s", pfx, i, k))
			} else {
				out = append(out, fmt.Sprintf("%s %s", pfx, k))
			}
		}
	}
	sort.Strings(out)
	return out
}

// DiffLines reports lines only in a and only in b.
func DiffLines(a, b []string) (onlyA, onlyB []string) {
	m := map[string]int{}
	for _, l := range a {
		m[l]++
	}
	for _, l := range b {
		if m[l] > 0 {
			m[l]--
		} else {
			onlyB = append(onlyB, l)
		}
	}
	for _, l := range a {
		if m[l] > 0 {
			m[l]--
			onlyA = append(onlyA, l)
		}
	}
	return
}

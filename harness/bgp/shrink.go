package bgp

import (
	"encoding/json"
	"testing"

	"verif.local/simrt"
)

// clonePlan deep-copies a plan through JSON (plans are plain data).
func clonePlan(p *Plan) *Plan {
	b, _ := json.Marshal(p)
	var q Plan
	json.Unmarshal(b, &q)
	return &q
}

// ShrinkPlan minimises a failing plan by delta debugging over its steps and by local
// simplifications, accepting a candidate only if the same assertion still fails.
// budget caps the number of candidate executions.
func ShrinkPlan(t *testing.T, def propDef, plan *Plan, assertion string, budget int) (*Plan, int) {
	runs := 0
	protected := func(p *Plan) int {
		n := 0
		for i := range p.Steps {
			if def.KeepStep != nil && def.KeepStep(&p.Steps[i]) {
				n++
			}
		}
		return n
	}
	mustKeep := protected(plan)
	fails := func(p *Plan) bool {
		if runs >= budget {
			return false
		}
		if protected(p) != mustKeep {
			return false // the candidate dropped a step without which the plan means something else
		}
		runs++
		var res *RunResult
		if simrt.RaceMode {
			// the interleaving is partly the Go runtime's: a candidate gets three attempts
			for k := 0; k < 3; k++ {
				if res = runInChild(clonePlan(p)); res == nil {
					continue
				}
				for _, v := range res.Violations {
					if v.Assertion == assertion {
						return true
					}
				}
			}
			return false
		} else {
			res = runOne(t, def, clonePlan(p), false)
		}
		for _, v := range res.Violations {
			if v.Assertion == assertion {
				return true
			}
		}
		return false
	}
	cur := clonePlan(plan)
	// ddmin over steps
	n := 2
	for len(cur.Steps) >= 2 && runs < budget {
		chunk := (len(cur.Steps) + n - 1) / n
		reduced := false
		for start := 0; start < len(cur.Steps); start += chunk {
			end := start + chunk
			if end > len(cur.Steps) {
				end = len(cur.Steps)
			}
			cand := clonePlan(cur)
			// keep the removed steps' gaps so that later steps stay at similar simulated times
			var gap int64
			for _, s := range cand.Steps[start:end] {
				gap += s.GapUS
			}
			cand.Steps = append(append([]Step(nil), cand.Steps[:start]...), cand.Steps[end:]...)
			if start < len(cand.Steps) {
				cand.Steps[start].GapUS += gap
			}
			if fails(cand) {
				cur = cand
				if n > 2 {
					n--
				}
				reduced = true
				break
			}
		}
		if !reduced {
			if chunk <= 1 {
				break
			}
			n *= 2
			if n > len(cur.Steps) {
				n = len(cur.Steps)
			}
		}
	}
	// local simplifications
	try := func(mut func(p *Plan) bool) {
		cand := clonePlan(cur)
		if mut(cand) && fails(cand) {
			cur = cand
		}
	}
	for i := range cur.Steps {
		i := i
		try(func(p *Plan) bool {
			if len(p.Steps[i].Chunks) == 0 {
				return false
			}
			p.Steps[i].Chunks, p.Steps[i].ChunkGapUS = nil, 0
			return true
		})
		try(func(p *Plan) bool {
			if len(p.Steps[i].Pfx) <= 1 {
				return false
			}
			p.Steps[i].Pfx = p.Steps[i].Pfx[:1]
			if len(p.Steps[i].PathIDs) > 1 {
				p.Steps[i].PathIDs = p.Steps[i].PathIDs[:1]
			}
			return true
		})
		try(func(p *Plan) bool {
			a := p.Steps[i].Attr
			if a == nil || (len(a.Communities) == 0 && len(a.LargeComms) == 0 && len(a.Unknown) == 0 && a.MED == nil) {
				return false
			}
			if p.Steps[i].Ineligible != "" {
				return false
			}
			a.Communities, a.LargeComms, a.Unknown, a.MED = nil, nil, nil, nil
			return true
		})
		try(func(p *Plan) bool {
			if def.KeepStep != nil && def.KeepStep(&p.Steps[i]) {
				return false // the skeleton keeps its timing as well
			}
			if k := p.Steps[i].Kind; k == "is_run" || k == "is_advance" {
				return false // here the "gap" is the amount of time the step lets pass, not a delay before it
			}
			if p.Steps[i].GapUS <= 1000 {
				return false
			}
			p.Steps[i].GapUS = 1000
			return true
		})
	}
	try(func(p *Plan) bool {
		if !p.Sim.ShuffleMaps && !p.Sim.ShuffleTies {
			return false
		}
		p.Sim.ShuffleMaps, p.Sim.ShuffleTies = false, false
		return true
	})
	try(func(p *Plan) bool {
		if p.Sim.SkewPPM == 0 {
			return false
		}
		p.Sim.SkewPPM = 0
		return true
	})
	// drop trailing peers nobody references
	for len(cur.Peers) > 1 {
		last := len(cur.Peers) - 1
		used := false
		for _, s := range cur.Steps {
			if s.Peer == last {
				used = true
			}
		}
		if used {
			break
		}
		cand := clonePlan(cur)
		cand.Peers = cand.Peers[:last]
		if !fails(cand) {
			break
		}
		cur = cand
	}
	return cur, runs
}

package bgp

import (
	"encoding/hex"
	"encoding/json"
	"fmt"
	"time"

	"verif.local/simrt"
)

// AttrSpec describes the attributes of an announcement in a plan.
type AttrSpec struct {
	ASPath       []Segment `json:"as_path"`
	Origin       uint8     `json:"origin,omitempty"`
	NextHop      uint32    `json:"nh"`
	MED          *uint32   `json:"med,omitempty"`
	LocalPref    *uint32   `json:"lp,omitempty"`
	Communities  []uint32  `json:"com,omitempty"`
	LargeComms   []LargeCommunity `json:"lcom,omitempty"`
	OriginatorID *uint32   `json:"orig,omitempty"`
	ClusterList  []uint32  `json:"cl,omitempty"`
	HasClusterList bool    `json:"has_cl,omitempty"`
	OTC          *uint32   `json:"otc,omitempty"`
	Unknown      []UnknownAttr `json:"unknown,omitempty"`
	AtomicAggr   bool      `json:"aa,omitempty"`
}

func (a AttrSpec) Attrs(v6 bool) Attrs {
	out := Attrs{HasOrigin: true, Origin: a.Origin, HasASPath: true, ASPath: a.ASPath, HasNextHop: true,
		Communities: a.Communities, LargeComms: a.LargeComms, Unknown: a.Unknown, AtomicAggr: a.AtomicAggr}
	if v6 {
		out.NextHopV6 = true
		// 2001:db8::<nh>
		out.NextHop = [16]byte{0x20, 0x01, 0x0d, 0xb8, 0, 0, 0, 0, 0, 0, 0, 0, byte(a.NextHop >> 24), byte(a.NextHop >> 16), byte(a.NextHop >> 8), byte(a.NextHop)}
	} else {
		out.NextHop = [16]byte{byte(a.NextHop >> 24), byte(a.NextHop >> 16), byte(a.NextHop >> 8), byte(a.NextHop)}
	}
	if a.MED != nil {
		out.HasMED, out.MED = true, *a.MED
	}
	if a.LocalPref != nil {
		out.HasLocalPref, out.LocalPref = true, *a.LocalPref
	}
	if a.OriginatorID != nil {
		out.HasOriginator, out.OriginatorID = true, *a.OriginatorID
	}
	if a.HasClusterList || len(a.ClusterList) > 0 {
		out.HasClusterList, out.ClusterList = true, a.ClusterList
	}
	if a.OTC != nil {
		out.HasOTC, out.OTC = true, *a.OTC
	}
	return out
}

// Tag of the announcement (last ASN).
func (a AttrSpec) Tag() uint32 {
	for i := len(a.ASPath) - 1; i >= 0; i-- {
		if n := len(a.ASPath[i].ASNs); n > 0 {
			return a.ASPath[i].ASNs[n-1]
		}
	}
	// an announcement without an AS_PATH carries its tag in a large community (see CanonPath.Tag)
	for _, l := range a.LargeComms {
		if l.G == tagCommunityAdmin {
			return l.L2
		}
	}
	return 0
}

// Step is one timed action of a plan.
type Step struct {
	GapUS  int64    `json:"gap_us"` // simulated time since the previous step
	Kind   string   `json:"kind"`
	Peer   int      `json:"peer,omitempty"`
	V6     bool     `json:"v6,omitempty"`
	Pfx    []Prefix `json:"pfx,omitempty"`
	PathID uint32   `json:"path_id,omitempty"`
	PathIDs []uint32 `json:"path_ids,omitempty"` // per NLRI identifiers (add-path)
	Wd      []Prefix `json:"wd,omitempty"`      // "announce" steps: NLRI withdrawn in the same UPDATE
	WdIDs   []uint32 `json:"wd_ids,omitempty"`  // their path identifiers (add-path)
	Attr   *AttrSpec `json:"attr,omitempty"`
	ForceMP bool    `json:"force_mp,omitempty"`
	AlsoNH  bool    `json:"also_nh,omitempty"` // multiprotocol UPDATE that carries a NEXT_HOP attribute as well (to be ignored, RFC 4760 3)
	Policy *PolicySpec `json:"policy,omitempty"`
	On     bool     `json:"on,omitempty"`
	N      int      `json:"n,omitempty"`
	Code   uint8    `json:"code,omitempty"`
	Sub    uint8    `json:"sub,omitempty"`
	Hex    string   `json:"hex,omitempty"`
	Chunks []int    `json:"chunks,omitempty"`
	ChunkGapUS int64 `json:"chunk_gap_us,omitempty"`
	NH     uint32   `json:"nh_static,omitempty"`
	Label  string   `json:"label,omitempty"`
	Ineligible string `json:"ineligible,omitempty"` // generator label: why this announcement must never be installed
	Malformed  string `json:"malformed,omitempty"`  // generator label: why this message is malformed
	Mutation   *Mutation `json:"mutation,omitempty"`
	Open       *OpenSpec `json:"open,omitempty"` // OPEN the scripted peer sends from now on (peer_auto / send_open)
	Par        []Step    `json:"par,omitempty"`  // operations released together by a "par" step
	IS         *ISStep   `json:"is,omitempty"`   // isissim: PDU description
}

// Mutation corrupts the encoded message of a step before it is delivered.
type Mutation struct {
	Kind string `json:"kind"`
	Off  int    `json:"off,omitempty"`
	Val  int    `json:"val,omitempty"`
}

// SimCfg are the simulator options of a plan.
type SimCfg struct {
	ShuffleTies   bool    `json:"shuffle_ties"`
	ShuffleMaps   bool    `json:"shuffle_maps"`
	RandomHandoff bool    `json:"random_handoff"`
	GateProb      float64 `json:"gate_prob,omitempty"`
	Sticky        float64 `json:"sticky,omitempty"`
	Priority      bool    `json:"priority,omitempty"` // gate scheduler: priority (PCT) instead of uniform choice
	SkewPPM       int64   `json:"skew_ppm,omitempty"`
	AggrUS        int64   `json:"aggr_us,omitempty"`
	SchedSeed     uint64  `json:"sched_seed,omitempty"`
	BatchInstant  bool    `json:"batch_instant,omitempty"`
	BatchWindowUS int64   `json:"batch_window_us,omitempty"`
}

func (s SimCfg) Config() simrt.Config {
	c := simrt.Config{ShuffleTies: s.ShuffleTies, ShuffleMaps: s.ShuffleMaps, RandomHandoff: s.RandomHandoff,
		GateProb: s.GateProb, Sticky: s.Sticky, Priority: s.Priority, TimerSkewPPM: s.SkewPPM, BatchInstant: s.BatchInstant, BatchWindow: us(s.BatchWindowUS)}
	if s.AggrUS > 0 {
		c.Knobs = map[string]int64{"bgp.aggr": s.AggrUS * 1000}
	}
	return c
}

// Plan is a complete, replayable description of one simulated run.
type Plan struct {
	Prop    string    `json:"prop"`
	Engine  string    `json:"engine"`
	Seed    uint64    `json:"seed"`
	Sim     SimCfg    `json:"sim"`
	DUT     DUTCfg    `json:"dut"`
	Peers   []PeerCfg `json:"peers"`
	Steps   []Step    `json:"steps"`
	TailUS  int64     `json:"tail_us"` // quiet time after the last step before the final checks
	Params  map[string]int64 `json:"params,omitempty"`
	Note    string    `json:"note,omitempty"`
	Cands   []CandSpec `json:"cands,omitempty"` // ribsim: candidate paths (C02, C04)
	Noise   []CandSpec `json:"noise,omitempty"` // ribsim: paths added and removed again (C02)
	BMPPeers []BMPPeer `json:"bmp_peers,omitempty"` // bmpsim: monitored sessions of the scripted router
	ISIS    *ISISCfg  `json:"isis,omitempty"`      // isissim: interfaces and scripted neighbours
	Cfgs    []CfgSpec `json:"cfgs,omitempty"`      // cfgsim: configurations loaded one after the other
}

func (p *Plan) JSON() []byte {
	b, _ := json.MarshalIndent(p, "", " ")
	return b
}

func (s Step) String() string {
	b, _ := json.Marshal(s)
	return string(b)
}

func us(n int64) time.Duration { return time.Duration(n) * time.Microsecond }

func mustHex(s string) []byte {
	b, err := hex.DecodeString(s)
	if err != nil {
		panic(fmt.Sprintf("bad hex in plan: %v", err))
	}
	return b
}

package bgp

import (
	"bytes"
	"fmt"
	"sort"
	"time"

	"verif.local/simrt"
)

// Session-layer properties: C19 (malformed UPDATEs), C21 (hostile byte streams),
// C22 (OPEN negotiation). Steps used here beyond the generic ones:
//   peer_auto {on}        scripted peer answers OPEN automatically or not
//   send_open {open}      send an OPEN (optionally overridden fields)
//   expect  {label}       marker for oracles

// ---------------------------------------------------------------------------------------
// helpers to build small fixed topologies

func basicPeer(i int, as uint32) PeerCfg {
	return PeerCfg{Name: fmt.Sprintf("p%d", i+1), Addr: [4]byte{10, 0, 0, byte(i + 1)}, AS: as, ID: 0x0a000001 + uint32(i),
		PeerHold: 90, DUTHold: 90, IPv4: true, PeerASN4: true, Import: AcceptAll(), Export: AcceptAll(),
		MinDelayUS: 200, JitterUS: 500, ReplyDelayUS: 300}
}

func newPlan(prop string, seed uint64, r *simrt.Rand) *Plan {
	return &Plan{Prop: prop, Engine: "bgpsim", Seed: seed, TailUS: 2_000_000,
		Sim: SimCfg{ShuffleTies: r.Chance(0.7), ShuffleMaps: r.Chance(0.7), AggrUS: pick(r, []int64{5000, 20000, 100000})},
		DUT: DUTCfg{RouterID: 0x0a0000fe, LocalAS: 65000}}
}

func propRand(prop string, seed uint64) *simrt.Rand {
	return simrt.NewRand(seed*0x9e3779b97f4a7c15 ^ simrt.Hash64(prop))
}

func randChunks(r *simrt.Rand, p float64) ([]int, int64) {
	if !r.Chance(p) {
		return nil, 0
	}
	var ch []int
	for i := 0; i < 1+r.Intn(5); i++ {
		ch = append(ch, 1+r.Intn(24))
	}
	return ch, int64(r.Intn(30000))
}

// ---------------------------------------------------------------------------------------
// C19: malformed UPDATEs never install routes

type malformedUpdate struct {
	raw   []byte
	why   string
	class string
}

// buildMalformedUpdate mutates a valid UPDATE of peer pc in one of the ways the property
// lists. The independent decoder must agree that the result is malformed by that criterion
// (otherwise ok=false and the caller draws again).
func buildMalformedUpdate(r *simrt.Rand, pc PeerCfg, dut DUTCfg, pfx Prefix, tag uint32, v6 bool) (malformedUpdate, bool) {
	asns := []uint32{}
	if pc.AS != dut.LocalAS {
		asns = append(asns, pc.AS)
	}
	asns = append(asns, 150, tag)
	a := AttrSpec{ASPath: []Segment{{2, asns}}, NextHop: 0x0a000000 | uint32(pc.Addr[3]), Origin: 0}
	if pc.AS == dut.LocalAS {
		a.LocalPref = u32p(100)
	}
	if r.Chance(0.3) {
		a.MED = u32p(5)
	}
	spec := UpdateSpec{Announce: []NLRI{{Prefix: pfx}}, Attrs: a.Attrs(v6), V6: v6, ASN4: pc.PeerASN4}
	kind := r.Intn(17)
	var m malformedUpdate
	switch kind {
	case 8:
		// none of the mandatory attributes at all (only optional ones remain)
		spec.OmitOrigin, spec.OmitASPath, spec.OmitNextHop = true, true, true
		m.why, m.class = "reachable NLRI without ORIGIN, AS_PATH and next hop", "missing_mandatory"
	case 0:
		spec.OmitOrigin = true
		m.why, m.class = "reachable NLRI without ORIGIN", "missing_mandatory"
	case 1:
		spec.OmitASPath = true
		m.why, m.class = "reachable NLRI without AS_PATH", "missing_mandatory"
	case 2:
		spec.OmitNextHop = true
		m.why, m.class = "reachable NLRI without next hop", "missing_mandatory"
	}
	raw := EncodeUpdate(spec)
	body := 19
	wl := int(raw[body])<<8 | int(raw[body+1])
	alOff := body + 2 + wl
	al := int(raw[alOff])<<8 | int(raw[alOff+1])
	attrStart := alOff + 2
	switch kind {
	case 3:
		// total path attribute length larger than what the message holds
		n := al + 1 + r.Intn(60)
		raw[alOff], raw[alOff+1] = byte(n>>8), byte(n)
		m.why, m.class = "total path attribute length exceeds the message", "lengths"
	case 4:
		// withdrawn routes length larger than the message
		n := len(raw) + r.Intn(100)
		raw[body], raw[body+1] = byte(n>>8), byte(n)
		m.why, m.class = "withdrawn routes length exceeds the message", "lengths"
	case 5:
		// first attribute (ORIGIN, length 1) declared with a wrong length
		if raw[attrStart+1] != AttrOrigin || v6 {
			return m, false
		}
		raw[attrStart+2] = byte(2 + r.Intn(3))
		m.why, m.class = "ORIGIN declared with a length other than 1", "attr_length"
	case 6:
		// NLRI prefix length beyond the family's maximum
		if v6 {
			// inside MP_REACH: last NLRI starts at len(raw) - (1 + bytes)
			nb := (int(pfx.Len) + 7) / 8
			off := len(raw) - 1 - nb
			// MP_REACH is the first attribute here, NLRI are at its end, not at the end of the message
			_ = off
			return m, false
		}
		nb := (int(pfx.Len) + 7) / 8
		off := len(raw) - 1 - nb
		if r.Chance(0.5) {
			raw[off] = byte(33 + r.Intn(200))
		} else {
			// an NLRI that is consistent in itself: length 33..64 followed by as many address bytes
			// as that length needs
			l := 33 + r.Intn(32)
			raw = append(raw[:off], byte(l))
			for k := 0; k < (l+7)/8; k++ {
				raw = append(raw, pfx.Addr[k%4])
			}
			raw[16], raw[17] = byte(len(raw)>>8), byte(len(raw))
		}
		m.why, m.class = "IPv4 NLRI prefix length beyond 32", "prefix_length"
	case 7:
		// an attribute whose declared length runs past the attribute block
		if al < 4 {
			return m, false
		}
		raw[attrStart+2] = byte(al + 10)
		m.why, m.class = "attribute length runs past the attribute block", "attr_length"
	case 9:
		// a fixed-size attribute (NEXT_HOP, MED, LOCAL_PREF: 4 bytes) declared and carried with
		// another length; all outer lengths still add up
		code := pick(r, []uint8{AttrNextHop, AttrMED, AttrLocalPref})
		off := findAttr(raw[attrStart:attrStart+al], code)
		if off < 0 || v6 && code == AttrNextHop {
			return m, false
		}
		off += attrStart
		if raw[off]&0x10 != 0 || raw[off+2] != 4 {
			return m, false
		}
		grow := r.Chance(0.5)
		if grow {
			raw[off+2] = 5
			raw = append(raw[:off+3+4], append([]byte{0x07}, raw[off+3+4:]...)...)
			al++
		} else {
			raw[off+2] = 3
			raw = append(raw[:off+3+3], raw[off+3+4:]...)
			al--
		}
		raw[alOff], raw[alOff+1] = byte(al>>8), byte(al)
		raw[16], raw[17] = byte(len(raw)>>8), byte(len(raw))
		m.why, m.class = fmt.Sprintf("attribute %d (fixed size 4) declared and carried with length %d", code, raw[off+2]), "attr_length"
	case 15, 16:
		// the last attribute (MP_REACH_NLRI moved there when there is one) declares a few octets more
		// than the message holds; the total path attribute length is left alone
		attrs, as, ae, okw := walkAttrs(raw)
		if !okw || len(attrs) == 0 || ae != len(raw) && v6 {
			return m, false
		}
		last := attrs[len(attrs)-1]
		for _, x := range attrs {
			if x.code == AttrMPReach && x.off != last.off {
				// move MP_REACH_NLRI to the end of the block
				blk := append([]byte(nil), raw[as:x.off]...)
				blk = append(blk, raw[x.off+x.hdrLen+x.valLen:ae]...)
				blk = append(blk, raw[x.off:x.off+x.hdrLen+x.valLen]...)
				copy(raw[as:ae], blk)
				attrs, _, _, _ = walkAttrs(raw)
				last = attrs[len(attrs)-1]
				break
			}
		}
		if last.hdrLen != 3 || last.valLen > 240 {
			return m, false
		}
		raw[last.off+2] = byte(last.valLen + 1 + r.Intn(6))
		m.why, m.class = fmt.Sprintf("last attribute (%d) declares %d octets, the message holds %d of them", last.code, raw[last.off+2], last.valLen), "attr_length"
	case 13, 14:
		// AS_PATH whose segment announces one AS number more than the attribute's declared length
		// holds; the octets of that AS number follow the attribute (counted neither in the attribute
		// length nor in the total path attribute length): a decoder driven by the segment count alone
		// reads past the attribute and stays aligned
		off := findAttr(raw[attrStart:attrStart+al], AttrASPath)
		if off < 0 {
			return m, false
		}
		off += attrStart
		if raw[off]&0x10 != 0 || raw[off+2] < 2 {
			return m, false
		}
		raw[off+4]++ // segment count
		end := off + 3 + int(raw[off+2])
		extra := []byte{0, 0, 0xfd, 0xe7}
		if !pc.PeerASN4 {
			extra = extra[2:]
		}
		raw = append(raw[:end:end], append(extra, raw[end:]...)...)
		raw[16], raw[17] = byte(len(raw)>>8), byte(len(raw))
		m.why, m.class = "AS_PATH segment count runs past the attribute's declared length", "attr_length"
	case 11, 12:
		// a zero-length attribute (ATOMIC_AGGREGATE) declared and carried with octets: appended as
		// the last attribute, its value either noise or something that reads like one more NLRI
		// (a decoder that skips the length check and does not consume the value would take it for one)
		val := []byte{24, 198, 51, byte(100 + r.Intn(50))}
		if v6 || r.Chance(0.3) {
			val = make([]byte, 1+r.Intn(6))
			for i := range val {
				val[i] = byte(r.Uint64())
			}
		}
		aa := append([]byte{0x40, AttrAtomicAggr, byte(len(val))}, val...)
		end := attrStart + al
		raw = append(raw[:end:end], append(aa, raw[end:]...)...)
		al += len(aa)
		raw[alOff], raw[alOff+1] = byte(al>>8), byte(al)
		raw[16], raw[17] = byte(len(raw)>>8), byte(len(raw))
		m.why, m.class = fmt.Sprintf("ATOMIC_AGGREGATE (fixed size 0) declared and carried with length %d", len(val)), "attr_length"
	case 10:
		// IPv6 NLRI inside MP_REACH_NLRI with a prefix length beyond 128
		if !v6 {
			return m, false
		}
		nb := (int(pfx.Len) + 7) / 8
		needle := append([]byte{pfx.Len}, pfx.Addr[:nb]...)
		off := bytes.LastIndex(raw, needle)
		if off < attrStart {
			return m, false
		}
		raw[off] = byte(129 + r.Intn(100))
		m.why, m.class = "IPv6 NLRI prefix length beyond 128", "prefix_length"
	}
	m.raw = raw
	// cross-check with the independent decoder
	dm, err := DecodeMsg(raw, DecodeOpts{ASN4: pc.PeerASN4})
	switch m.class {
	case "missing_mandatory":
		if err != nil || dm.Update == nil {
			return m, false
		}
		u := dm.Update
		reach := len(u.NLRI) > 0 || len(u.MPReach) > 0
		if !reach || (u.Attrs.HasOrigin && u.Attrs.HasASPath && u.Attrs.HasNextHop) {
			return m, false
		}
	default:
		if err == nil {
			return m, false
		}
	}
	return m, true
}

// findAttr returns the offset of the attribute with the given type code inside an attribute block (-1: absent).
func findAttr(block []byte, code uint8) int {
	for off := 0; off+3 <= len(block); {
		n, hdr := int(block[off+2]), 3
		if block[off]&0x10 != 0 {
			if off+4 > len(block) {
				return -1
			}
			n, hdr = int(block[off+2])<<8|int(block[off+3]), 4
		}
		if block[off+1] == code {
			return off
		}
		off += hdr + n
	}
	return -1
}

func genC19(seed uint64) *Plan {
	r := propRand("C19", seed)
	pl := newPlan("C19", seed, r)
	n := 2 + r.Intn(2)
	for i := 0; i < n; i++ {
		as := uint32(65001 + i)
		if r.Chance(0.3) {
			as = 65000
		}
		pc := basicPeer(i, as)
		pc.IPv6 = r.Chance(0.3)
		pc.PeerASN4 = !r.Chance(0.2)
		pl.Peers = append(pl.Peers, pc)
	}
	for i := range pl.Peers {
		pl.Steps = append(pl.Steps, Step{GapUS: 1000, Kind: "connect", Peer: i})
	}
	pl.Steps = append(pl.Steps, Step{GapUS: 400_000, Kind: "checkpoint"})
	tag := uint32(20000)
	pool := []Prefix{P4(198, 18, 0, 0, 16), P4(198, 18, 1, 0, 24), P4(198, 18, 1, 128, 25), P4(198, 19, 0, 0, 24), P4(198, 18, 1, 1, 32)}
	m := 2 + r.Intn(5)
	for k := 0; k < m; k++ {
		pi := r.Intn(n)
		pc := pl.Peers[pi]
		// some valid background routes
		for j := r.Intn(3); j > 0; j-- {
			tag++
			asns := []uint32{}
			if pc.AS != 65000 {
				asns = append(asns, pc.AS)
			}
			asns = append(asns, tag)
			at := &AttrSpec{ASPath: []Segment{{2, asns}}, NextHop: 0x0a000000 | uint32(pc.Addr[3])}
			if pc.AS == 65000 {
				at.LocalPref = u32p(100)
			}
			pl.Steps = append(pl.Steps, Step{GapUS: int64(1000 + r.Intn(50000)), Kind: "announce", Peer: pi, Pfx: []Prefix{pick(r, pool)}, Attr: at})
		}
		tag++
		var mu malformedUpdate
		ok := false
		for try := 0; try < 20 && !ok; try++ {
			if pc.IPv6 && r.Chance(0.35) {
				mu, ok = buildMalformedUpdate(r, pc, pl.DUT, pick(r, []Prefix{P6(0x20010db800010000, 0, 48), P6(0x20010db800010000, 0, 64), P6(0x20010db8000100aa, 0, 64)}), tag, true)
			} else {
				mu, ok = buildMalformedUpdate(r, pc, pl.DUT, pick(r, pool), tag, false)
			}
		}
		if !ok {
			continue
		}
		st := Step{GapUS: int64(1000 + r.Intn(100000)), Kind: "raw", Peer: pi, Hex: hexEncode(mu.raw), Malformed: mu.why, Label: mu.class, N: int(tag)}
		st.Chunks, st.ChunkGapUS = randChunks(r, 0.25)
		pl.Steps = append(pl.Steps, st)
		pl.Steps = append(pl.Steps, Step{GapUS: 300_000, Kind: "checkpoint"})
		pl.Steps = append(pl.Steps, Step{GapUS: 200_000, Kind: "connect", Peer: pi})
		pl.Steps = append(pl.Steps, Step{GapUS: 400_000, Kind: "checkpoint"})
	}
	return pl
}

// c19Oracle: no (prefix, tag) pair appears in any Adj-RIB-In or Loc-RIB because of a malformed UPDATE.
type c19Oracle struct {
	before map[string]bool
	armed  *Step
}

func c19Keys(w *World) map[string]bool {
	out := map[string]bool{}
	obs := w.Observe()
	for fi := range obs.Loc {
		for pfx, ps := range obs.Loc[fi] {
			for _, c := range ps {
				out[fmt.Sprintf("locrib %s tag=%d nh=%s", pfx, c.Tag(), c.NextHop)] = true
			}
		}
		for pi, po := range obs.Peers {
			if !po.HasIn[fi] {
				continue
			}
			for pfx, ps := range po.In[fi] {
				for _, c := range ps {
					out[fmt.Sprintf("adjribin/%s %s tag=%d nh=%s", w.Peers[pi].Cfg.Name, pfx, c.Tag(), c.NextHop)] = true
				}
			}
		}
	}
	return out
}

func (o *c19Oracle) Init(w *World) {}

func (o *c19Oracle) AfterStep(w *World, i int, s *Step) {
	if o.armed != nil && s.Kind == "checkpoint" {
		after := c19Keys(w)
		var added []string
		for k := range after {
			if !o.before[k] {
				added = append(added, k)
			}
		}
		sort.Strings(added)
		if len(added) > 0 {
			w.Env.Violate("C19", "route_installed_from_malformed_update_"+o.armed.Label, "malformed UPDATE (%s) installed: %v", o.armed.Malformed, added)
		}
		o.armed = nil
	}
	if i+1 < len(w.Plan.Steps) && w.Plan.Steps[i+1].Kind == "raw" && w.Plan.Steps[i+1].Malformed != "" {
		p := w.peer(w.Plan.Steps[i+1].Peer)
		if p != nil && p.Established() {
			o.before = c19Keys(w)
			o.armed = &w.Plan.Steps[i+1]
			w.Env.probe("malformed_update_sent_" + o.armed.Label)
		}
	}
}

func (o *c19Oracle) Final(w *World) {}

// ---------------------------------------------------------------------------------------
// C21: hostile byte streams in OpenSent, OpenConfirm and Established

type garbage struct {
	raw      []byte
	label    string
	code     uint8 // expected NOTIFICATION code (0 = no expectation)
	sub      uint8 // expected subcode (0 = not checked)
	thenEOF  bool
	why      string // what was changed (structured mutations)
}

func genGarbage(r *simrt.Rand, pc PeerCfg, state string) garbage {
	ka := EncodeKeepalive()
	k := r.Intn(12)
	if k >= 9 && state == "established" {
		// one field of one attribute of a valid, attribute-rich UPDATE changed (c21_mutations.go)
		for try := 0; try < 10; try++ {
			v6 := pc.IPv6 && r.Chance(0.6)
			ru := richUpdate(r, pc, v6, r.Chance(0.3))
			if r.Chance(0.25) {
				// the attribute-rich UPDATE as it is (valid): nothing may happen to the daemon either
				return garbage{raw: ru, label: "rich_update"}
			}
			if b, what, ok := mutateUpdateField(r, ru); ok {
				return garbage{raw: b, label: "update_field", why: what}
			}
		}
	}
	if k >= 9 && state == "opensent" {
		// a valid OPEN with capabilities for address families that are not configured / unknown
		o := openSpecFor(pc)
		o.AddPath = map[uint16]uint8{pick(r, []uint16{2, 25, 16388}): uint8(1 + r.Intn(3))}
		if pc.IPv6 {
			delete(o.AddPath, 2)
			o.AddPath[25] = 3
		}
		return garbage{raw: EncodeOpen(o), label: "open_caps_for_unconfigured_family"}
	}
	switch k {
	case 0:
		b := append([]byte(nil), ka...)
		b[16], b[17] = 0, byte(r.Intn(19)) // length < 19
		return garbage{raw: b, label: "length_below_19", code: 1, sub: 2}
	case 1:
		b := append([]byte(nil), ka...)
		n := 4097 + r.Intn(60000)
		b[16], b[17] = byte(n>>8), byte(n)
		b = append(b, make([]byte, 200)...)
		return garbage{raw: b, label: "length_above_4096", code: 1, sub: 2}
	case 2:
		b := append([]byte(nil), ka...)
		b[r.Intn(16)] = byte(r.Intn(255))
		return garbage{raw: b, label: "bad_marker", code: 1, sub: 1}
	case 3:
		b := append([]byte(nil), ka...)
		b[18] = byte(5 + r.Intn(250))
		return garbage{raw: b, label: "bad_type", code: 1, sub: 3}
	case 4:
		// truncated message followed by EOF
		b := EncodeOpen(openSpecFor(pc))
		return garbage{raw: b[:1+r.Intn(len(b)-1)], label: "truncated_then_eof", thenEOF: true}
	case 5:
		n := 1 + r.Intn(300)
		b := make([]byte, n)
		for i := range b {
			b[i] = byte(r.Uint64())
		}
		return garbage{raw: b, label: "noise", thenEOF: r.Chance(0.5)}
	case 6:
		// a message that is wrong for the state
		if state == "established" {
			return garbage{raw: EncodeOpen(openSpecFor(pc)), label: "open_in_established", code: 5}
		}
		// (2-octet AS_PATH encoding: nothing has been negotiated before Established, so this is what decodes)
		asn4 := state == "openconfirm" && pc.PeerASN4 // in OpenConfirm the peer's OPEN has been processed
		b := EncodeUpdate(UpdateSpec{Announce: []NLRI{{Prefix: P4(192, 0, 2, 0, 24)}}, Attrs: AttrSpec{ASPath: []Segment{{2, []uint32{pc.AS % 65536, 64999}}}, NextHop: 0x0a000001}.Attrs(false), ASN4: asn4})
		return garbage{raw: b, label: "update_before_established", code: 5}
	case 7:
		// OPEN with a bad version / mutated field
		o := openSpecFor(pc)
		o.Version = 3
		return garbage{raw: EncodeOpen(o), label: "open_version_3", code: func() uint8 {
			if state == "opensent" {
				return 2
			}
			return 0
		}(), sub: func() uint8 {
			if state == "opensent" {
				return 1
			}
			return 0
		}()}
	default:
		// mutate one byte of a valid message body
		b := EncodeOpen(openSpecFor(pc))
		if state == "established" {
			b = EncodeUpdate(UpdateSpec{Announce: []NLRI{{Prefix: P4(192, 0, 2, 0, 24)}}, Attrs: AttrSpec{ASPath: []Segment{{2, []uint32{pc.AS, 64998}}}, NextHop: 0x0a000001}.Attrs(false), ASN4: pc.PeerASN4})
		}
		b[19+r.Intn(len(b)-19)] ^= byte(1 << uint(r.Intn(8)))
		return garbage{raw: b, label: "bitflip"}
	}
}

func genC21(seed uint64) *Plan {
	r := propRand("C21", seed)
	pl := newPlan("C21", seed, r)
	// p1 is the victim, p2 a well-behaved second session with routes
	pl.Peers = []PeerCfg{basicPeer(0, 65001), basicPeer(1, 65002)}
	if r.Chance(0.3) {
		pl.Peers[0].AS = 65000
	}
	pl.Peers[0].PeerHold, pl.Peers[0].DUTHold = 30, 30
	pl.Peers[0].IPv6 = r.Chance(0.5)
	pl.Steps = append(pl.Steps, Step{GapUS: 1000, Kind: "connect", Peer: 1})
	pl.Steps = append(pl.Steps, Step{GapUS: 300_000, Kind: "announce", Peer: 1, Pfx: []Prefix{P4(203, 0, 113, 0, 24), P4(203, 0, 113, 128, 25)},
		Attr: &AttrSpec{ASPath: []Segment{{2, []uint32{65002, 20001}}}, NextHop: 0x0a000002}})
	pl.Steps = append(pl.Steps, Step{GapUS: 100_000, Kind: "checkpoint", Label: "baseline"})
	rounds := 1 + r.Intn(3)
	for k := 0; k < rounds; k++ {
		state := pick(r, []string{"opensent", "openconfirm", "established", "established"})
		g := genGarbage(r, pl.Peers[0], state)
		switch state {
		case "opensent":
			pl.Steps = append(pl.Steps, Step{GapUS: 200_000, Kind: "peer_auto", Peer: 0, On: false})
			pl.Steps = append(pl.Steps, Step{GapUS: 1000, Kind: "connect", Peer: 0})
		case "openconfirm":
			pl.Steps = append(pl.Steps, Step{GapUS: 200_000, Kind: "peer_auto", Peer: 0, On: false})
			pl.Steps = append(pl.Steps, Step{GapUS: 1000, Kind: "connect", Peer: 0})
			pl.Steps = append(pl.Steps, Step{GapUS: 20_000, Kind: "send_open", Peer: 0})
		default:
			pl.Steps = append(pl.Steps, Step{GapUS: 200_000, Kind: "peer_auto", Peer: 0, On: true})
			pl.Steps = append(pl.Steps, Step{GapUS: 1000, Kind: "connect", Peer: 0})
			pl.Steps = append(pl.Steps, Step{GapUS: 300_000, Kind: "announce", Peer: 0, Pfx: []Prefix{P4(198, 51, 100, 0, 24)},
				Attr: &AttrSpec{ASPath: []Segment{{2, []uint32{pl.Peers[0].AS, 20100 + uint32(k)}}}, NextHop: 0x0a000001, LocalPref: u32p(100)}})
		}
		st := Step{GapUS: int64(20_000 + r.Intn(400_000)), Kind: "raw", Peer: 0, Hex: hexEncode(g.raw), Label: g.label + "@" + state, Code: g.code, Sub: g.sub, Malformed: g.label}
		if g.why != "" {
			st.Label += " (" + g.why + ")"
		}
		st.Chunks, st.ChunkGapUS = randChunks(r, 0.4)
		pl.Steps = append(pl.Steps, st)
		if g.thenEOF {
			pl.Steps = append(pl.Steps, Step{GapUS: int64(1000 + r.Intn(100_000)), Kind: "peer_close", Peer: 0})
		}
		// long enough for every timer of the victim session to have fired: an incomplete message
		// without EOF may legitimately be waited for until the hold timer expires (negotiated 30 s in
		// Established/OpenConfirm, the large OpenSent value of RFC 4271 8.2.2 - 4 minutes - before)
		pl.Steps = append(pl.Steps, Step{GapUS: 250_000_000, Kind: "checkpoint", Label: "after_garbage"})
		// a fresh, clean connection from the same peer must be served
		pl.Steps = append(pl.Steps, Step{GapUS: 1000, Kind: "peer_auto", Peer: 0, On: true})
		pl.Steps = append(pl.Steps, Step{GapUS: 1000, Kind: "connect", Peer: 0, Label: "clean_reconnect"})
		pl.Steps = append(pl.Steps, Step{GapUS: 2_000_000, Kind: "checkpoint", Label: "reconnected"})
	}
	return pl
}

type c21Oracle struct {
	notifsBefore int
	closedBefore int
	rawStep      *Step
	rawConn      *Conn
	baseline     []string
}

func (o *c21Oracle) Init(w *World) {}

func (o *c21Oracle) otherSessionIntact(w *World, when string) {
	p2 := w.Peers[1]
	est, _ := w.DUT.EstablishedFSM(p2)
	if est == nil {
		w.Env.Violate("C21", "other_session_affected", "%s: the well-behaved session %s is no longer Established", when, p2.Cfg.Name)
		return
	}
	var ls []string
	for pfx, ps := range w.DUT.LocRIBDump(false) {
		for _, c := range ps {
			if c.Source == p2.Cfg.addrString() {
				ls = append(ls, fmt.Sprintf("%s %s", pfx, c.Key(true)))
			}
		}
	}
	sort.Strings(ls)
	if o.baseline == nil {
		o.baseline = ls
		return
	}
	a, b := DiffLines(o.baseline, ls)
	if len(a)+len(b) > 0 {
		w.Env.Violate("C21", "other_session_affected", "%s: routes of the well-behaved session changed: lost %v gained %v", when, a, b)
	}
}

func (o *c21Oracle) AfterStep(w *World, i int, s *Step) {
	victim := w.Peers[0]
	switch {
	case s.Kind == "checkpoint" && s.Label == "baseline":
		o.otherSessionIntact(w, "baseline")
	case s.Kind == "raw":
		o.rawStep = s
		o.rawConn = victim.conn
	case s.Kind == "checkpoint" && s.Label == "after_garbage" && o.rawStep != nil:
		o.otherSessionIntact(w, "after "+o.rawStep.Label)
		c := o.rawConn
		// the session must not linger: connection closed by the DUT, no Established FSM on it
		if c != nil && !c.ClosedByDUT() {
			// a message that merely looks odd may legitimately keep the session (bit flips can yield valid messages): only judged for unambiguous classes
			if o.rawStep.Code != 0 || o.rawStep.Malformed == "truncated_then_eof" || o.rawStep.Malformed == "noise" {
				w.Env.Violate("C21", "session_not_torn_down", "%s: 250 s after the bytes were delivered the DUT still has not closed the connection", o.rawStep.Label)
			}
		}
		if o.rawStep.Code != 0 && c != nil {
			var got []string
			ok := false
			for _, n := range victim.Notifs {
				if n.Conn != c {
					continue
				}
				got = append(got, fmt.Sprintf("%d/%d", n.Msg.Notif.Code, n.Msg.Notif.Subcode))
				if n.Msg.Notif.Code == o.rawStep.Code && (o.rawStep.Sub == 0 || n.Msg.Notif.Subcode == o.rawStep.Sub) {
					ok = true
				}
			}
			if !ok {
				w.Env.Violate("C21", "notification_"+o.rawStep.Malformed, "%s: expected NOTIFICATION %d/%d before the close, got %v", o.rawStep.Label, o.rawStep.Code, o.rawStep.Sub, got)
			}
		}
	case s.Kind == "checkpoint" && s.Label == "reconnected":
		o.otherSessionIntact(w, "after reconnect")
		est, _ := w.DUT.EstablishedFSM(victim)
		if est == nil || !victim.Established() || est.Con != victim.conn {
			lbl := "?"
			if o.rawStep != nil {
				lbl = o.rawStep.Label
			}
			w.Env.Violate("C21", "peer_wedged_after_garbage", "after %s a clean new connection from %s did not reach Established within 2 s (FSM states: %s)", lbl, victim.Cfg.Name, fsmStates(w, victim))
		}
		o.rawStep = nil
	}
}

func fsmStates(w *World, p *Peer) string {
	s := ""
	for _, f := range w.DUT.FSMs(p) {
		s += f.State + " "
	}
	return s
}

func (o *c21Oracle) Final(w *World) {}

// ---------------------------------------------------------------------------------------
// C22: OPEN negotiation

// refNegotiate is the reference admission function (RFC 4271 6.2, RFC 6793, RFC 6286, RFC 9234 4.2).
// It returns admit, and on reject the expected OPEN error subcode (0 = any OPEN error subcode).
func refNegotiate(dut DUTCfg, pc PeerCfg, o OpenSpec) (admit bool, sub uint8, why string) {
	type reason struct {
		sub uint8
		why string
	}
	var rs []reason
	if o.Version != 0 && o.Version != 4 {
		rs = append(rs, reason{1, "unsupported version"})
	}
	// peer AS: the 2-octet field, or the 4-octet capability when the field is AS_TRANS
	as16 := uint16(o.AS)
	if o.AS > 65535 {
		as16 = ASTrans
	}
	if o.AS16 != nil {
		as16 = *o.AS16
	}
	peerAS := uint32(as16)
	if o.ASN4 {
		v := o.AS
		if o.ASN4Val != nil {
			v = *o.ASN4Val
		}
		if as16 == ASTrans {
			peerAS = v
		} else if v != uint32(as16) {
			return false, 0, "skip" // inconsistent 2-octet field and capability: not judged
		}
	}
	if peerAS != pc.AS {
		rs = append(rs, reason{2, "bad peer AS"})
	}
	if o.ID == 0 {
		rs = append(rs, reason{3, "BGP identifier 0"})
	} else if pc.AS == dut.LocalAS && o.ID == dut.RouterID {
		rs = append(rs, reason{3, "BGP identifier equals ours on iBGP"})
	}
	if o.HoldTime == 1 || o.HoldTime == 2 {
		rs = append(rs, reason{6, "hold time 1 or 2"})
	}
	// roles (RFC 9234 4.2) apply to eBGP sessions with a locally configured role
	if pc.AS != dut.LocalAS && pc.DUTRole >= 1 && pc.DUTRole <= 5 {
		roles := append([]uint8{}, o.ExtraRoles...)
		if o.Role != nil {
			roles = append([]uint8{*o.Role}, roles...)
		}
		distinct := map[uint8]bool{}
		for _, x := range roles {
			distinct[x] = true
		}
		switch {
		case len(distinct) > 1:
			rs = append(rs, reason{11, "multiple different roles"})
		case len(roles) == 0:
			if pc.Strict {
				rs = append(rs, reason{11, "strict mode, no role"})
			}
		default:
			local := map[uint8]uint8{1: roleProvider, 2: roleRS, 3: roleRSClient, 4: roleCustomer, 5: rolePeer}[pc.DUTRole]
			remote := roles[0]
			okPair := (local == roleProvider && remote == roleCustomer) || (local == roleCustomer && remote == roleProvider) ||
				(local == roleRS && remote == roleRSClient) || (local == roleRSClient && remote == roleRS) || (local == rolePeer && remote == rolePeer)
			if !okPair {
				rs = append(rs, reason{11, "role mismatch"})
			}
		}
	}
	switch len(rs) {
	case 0:
		return true, 0, ""
	case 1:
		return false, rs[0].sub, rs[0].why
	}
	// several independent reasons: which one is reported first is the implementation's choice
	return false, 0, "several reasons"
}

func genC22(seed uint64) *Plan {
	r := propRand("C22", seed)
	pl := newPlan("C22", seed, r)
	n := 1 + r.Intn(2)
	for i := 0; i < n; i++ {
		as := uint32(65001 + i)
		switch r.Intn(5) {
		case 0:
			as = 65000
		case 1:
			as = 4200000000 + uint32(i) // needs AS_TRANS + 4-octet capability
		}
		pc := basicPeer(i, as)
		pc.DUTHold = pick(r, []uint16{90, 30, 9, 3, 180, 0})
		pc.IPv6 = r.Chance(0.3)
		pc.DUTAdvMPv4 = r.Chance(0.4) // local side advertises multiprotocol for IPv4 unicast or not
		if r.Chance(0.4) {
			pc.AddPathRX = r.Chance(0.5)
			if r.Chance(0.5) {
				pc.AddPathTX = 2
			}
		}
		if as != 65000 && r.Chance(0.4) {
			pc.DUTRole = uint8(1 + r.Intn(5))
			pc.Strict = r.Chance(0.3)
		}
		pl.Peers = append(pl.Peers, pc)
	}
	// a route source so that UPDATE encodings towards the peers under test can be observed
	src := basicPeer(n, 65100)
	src.Name = "src"
	pl.Peers = append(pl.Peers, src)
	pl.Steps = append(pl.Steps, Step{GapUS: 1000, Kind: "connect", Peer: n})
	pl.Steps = append(pl.Steps, Step{GapUS: 300_000, Kind: "announce", Peer: n, Pfx: []Prefix{P4(203, 0, 113, 0, 24), P4(198, 51, 100, 0, 24)},
		Attr: &AttrSpec{ASPath: []Segment{{2, []uint32{65100, 4200000123, 20001}}}, NextHop: 0x0a000000 | uint32(src.Addr[3])}})
	for i := 0; i < n; i++ {
		pc := pl.Peers[i]
		o := openSpecFor(pc)
		// vary the OPEN
		o.HoldTime = pick(r, []uint16{0, 1, 2, 3, 4, 5, 9, 30, 90, 240, 65535})
		if pc.AS > 65535 {
			o.ASN4 = true
		} else {
			o.ASN4 = !r.Chance(0.25)
		}
		switch r.Intn(8) {
		case 0:
			o.ID = 0
		case 1:
			o.ID = pl.DUT.RouterID
		case 2:
			o.AS = pc.AS + 1
		case 3:
			if pc.AS > 65535 {
				o.ASN4 = false // AS_TRANS without the capability: cannot resolve
			}
		}
		o.MPv4 = r.Chance(0.5) // the peer advertises multiprotocol for IPv4 unicast or not, whatever the local side does
		if pc.IPv6 && r.Chance(0.25) {
			o.MPv6 = false
		}
		if r.Chance(0.4) {
			o.AddPath = map[uint16]uint8{1: uint8(1 + r.Intn(3))}
			if pc.IPv6 {
				o.AddPath[2] = uint8(1 + r.Intn(3))
			}
		} else {
			o.AddPath = nil
		}
		if r.Chance(0.25) {
			// capabilities for an address family that is not configured on the session (IPv6 on an
			// IPv4-only neighbour, or an AFI nobody knows): to be ignored, the OPEN stays valid
			if o.AddPath == nil {
				o.AddPath = map[uint16]uint8{}
			}
			afi := uint16(25)
			if !pc.IPv6 && r.Chance(0.6) {
				afi = 2
				o.MPv6 = r.Chance(0.5)
			}
			o.AddPath[afi] = uint8(1 + r.Intn(3))
		}
		if pc.DUTRole != 0 || r.Chance(0.2) {
			switch r.Intn(4) {
			case 0:
				o.Role = nil
			case 1:
				o.Role = u8p(uint8(r.Intn(5)))
			case 2:
				compat := map[uint8]uint8{1: roleCustomer, 2: roleRSClient, 3: roleRS, 4: roleProvider, 5: rolePeer}[pc.DUTRole]
				o.Role = u8p(compat)
			case 3:
				o.Role = u8p(uint8(r.Intn(5)))
				o.ExtraRoles = []uint8{uint8(r.Intn(5))}
			}
		}
		// a distant peer may take seconds to answer the OPEN (RFC 4271 8.2.2: the hold timer is set to a large value in OpenSent)
		pl.Peers[i].ReplyDelayUS = pick(r, []int64{300, 300, 5000, 1_500_000, 2_500_000})
		if r.Chance(0.3) {
			pl.Peers[i].ReplyChunk = 5 + r.Intn(30)
			pl.Peers[i].ReplyChunkGapUS = int64(1000 + r.Intn(120_000))
		}
		pl.Steps = append(pl.Steps, Step{GapUS: 200_000, Kind: "peer_auto", Peer: i, On: true, Open: &o})
		pl.Steps = append(pl.Steps, Step{GapUS: 1000, Kind: "connect", Peer: i})
		pl.Steps = append(pl.Steps, Step{GapUS: 5_000_000, Kind: "checkpoint", Label: "after_open", Peer: i})
	}
	// observe keepalive cadence, then silence the admitted peers and wait for the hold timers
	pl.Steps = append(pl.Steps, Step{GapUS: 200_000_000, Kind: "checkpoint", Label: "cadence"})
	for i := 0; i < n; i++ {
		pl.Steps = append(pl.Steps, Step{GapUS: 1000, Kind: "peer_silent", Peer: i, On: true, Label: "silence"})
	}
	pl.Steps = append(pl.Steps, Step{GapUS: 260_000_000, Kind: "checkpoint", Label: "after_silence"})
	pl.TailUS = 1_000_000
	return pl
}

type c22Oracle struct {
	opens    map[int]OpenSpec
	admitted map[int]bool
	judged   map[int]bool
	silenced map[int]time.Duration
	negHold  map[int]uint16
}

func (o *c22Oracle) Init(w *World) {
	o.opens, o.admitted, o.judged = map[int]OpenSpec{}, map[int]bool{}, map[int]bool{}
	o.silenced, o.negHold = map[int]time.Duration{}, map[int]uint16{}
}

func (o *c22Oracle) AfterStep(w *World, i int, s *Step) {
	dut := w.Plan.DUT
	switch {
	case s.Kind == "peer_auto" && s.Open != nil:
		o.opens[s.Peer] = *s.Open
	case s.Kind == "checkpoint" && s.Label == "after_open":
		p := w.Peers[s.Peer]
		spec, ok := o.opens[s.Peer]
		if !ok || p.conn == nil {
			return
		}
		admit, sub, why := refNegotiate(dut, p.Cfg, spec)
		if why == "skip" {
			return
		}
		o.judged[s.Peer] = true
		est, _ := w.DUT.EstablishedFSM(p)
		isEst := est != nil && est.Con == p.conn
		if admit {
			if !isEst {
				w.Env.Violate("C22", "valid_open_not_admitted", "peer %s: OPEN %s should be admitted but the session is not Established after 1.5 s (states: %s, notifications: %s)", p.Cfg.Name, openString(spec), fsmStates(w, p), notifString(p, p.conn))
				return
			}
			o.admitted[s.Peer] = true
			hold := spec.HoldTime
			if p.Cfg.DUTHold < hold {
				hold = p.Cfg.DUTHold
			}
			o.negHold[s.Peer] = hold
			if time.Duration(est.HoldTimeNS) != time.Duration(hold)*time.Second {
				w.Env.Violate("C22", "negotiated_hold_time", "peer %s: offers %d (peer) / %d (local) must negotiate %d s, FSM uses %v", p.Cfg.Name, spec.HoldTime, p.Cfg.DUTHold, hold, time.Duration(est.HoldTimeNS))
			}
			// multiprotocol encoding of a family is used only if both sides advertised the capability for
			// it (the local side always does for IPv6, for IPv4 only when configured to)
			for _, fam := range est.Families {
				local, peer := p.Cfg.DUTAdvMPv4, spec.MPv4
				if fam.AFI == 2 {
					local, peer = true, spec.MPv6
				}
				if fam.MultiProtocol != (local && peer) {
					w.Env.Violate("C22", "negotiated_multiprotocol", "peer %s family %d: multiprotocol capability advertised locally=%v by the peer=%v, the session uses multiprotocol encoding=%v",
						p.Cfg.Name, fam.AFI, local, peer, fam.MultiProtocol)
				}
			}
			if est.Supports4Octet != spec.ASN4 {
				w.Env.Violate("C22", "negotiated_asn4", "peer %s: 4-octet AS capability advertised by the peer=%v (always advertised locally), the session uses 4-octet AS numbers=%v", p.Cfg.Name, spec.ASN4, est.Supports4Octet)
			}
			// RFC 7911: a direction of add-path is used only if one side advertised "send" and the other
			// "receive" for the family (peer bits: 1 receive, 2 send)
			for _, fam := range est.Families {
				bits := spec.AddPath[fam.AFI]
				wantRX := p.Cfg.AddPathRX && bits&2 != 0
				wantTX := p.Cfg.AddPathTX > 0 && bits&1 != 0
				if fam.AddPathRX != wantRX || fam.AddPathTX != wantTX {
					w.Env.Violate("C22", "negotiated_add_path", "peer %s family %d: local add-path receive=%v send=%v, peer advertised %d (1 receive, 2 send): expected to receive with path ids=%v and send with path ids=%v, the session uses receive=%v send=%v",
						p.Cfg.Name, fam.AFI, p.Cfg.AddPathRX, p.Cfg.AddPathTX > 0, bits, wantRX, wantTX, fam.AddPathRX, fam.AddPathTX)
				}
			}
			return
		}
		if isEst {
			w.Env.Violate("C22", "invalid_open_admitted_"+slug(why), "peer %s: OPEN %s must be rejected (%s) but the session is Established", p.Cfg.Name, openString(spec), why)
			return
		}
		// rejected: OPEN error NOTIFICATION with the right subcode, and the connection closed by the DUT
		okN := false
		for _, n := range p.Notifs {
			if n.Conn == p.conn && n.Msg.Notif.Code == 2 && (sub == 0 || n.Msg.Notif.Subcode == sub) {
				okN = true
			}
		}
		if !okN {
			w.Env.Violate("C22", "reject_without_open_error_"+slug(why), "peer %s: OPEN %s rejected (%s) but no NOTIFICATION 2/%d was sent (got %s)", p.Cfg.Name, openString(spec), why, sub, notifString(p, p.conn))
		}
		if !p.conn.ClosedByDUT() {
			w.Env.Violate("C22", "reject_leaves_connection_open_"+slug(why), "peer %s: OPEN %s rejected (%s) but the DUT did not close the connection", p.Cfg.Name, openString(spec), why)
		}
	case s.Kind == "checkpoint" && s.Label == "cadence":
		for pi := range o.admitted {
			p := w.Peers[pi]
			hold := o.negHold[pi]
			var ks []time.Duration
			for _, m := range p.Rx {
				if m.Conn == p.conn && m.Msg.Type == MsgKeepalive {
					ks = append(ks, m.At)
				}
			}
			if hold == 0 {
				if len(ks) > 1 {
					w.Env.Violate("C22", "keepalives_with_hold_zero", "peer %s: negotiated hold time 0 but %d KEEPALIVEs were sent", p.Cfg.Name, len(ks))
				}
				continue
			}
			iv := time.Duration(hold) * time.Second / 3
			for k := 2; k < len(ks); k++ {
				d := ks[k] - ks[k-1]
				tol := 20 * time.Millisecond
				if d > iv+tol || d < iv-tol {
					w.Env.Violate("C22", "keepalive_interval", "peer %s: negotiated hold %d s => KEEPALIVE every %v, observed gap %v", p.Cfg.Name, hold, iv, d)
					break
				}
			}
			if len(ks) < 3 && 200*time.Second > 3*iv {
				w.Env.Violate("C22", "keepalive_interval", "peer %s: only %d KEEPALIVEs in 200 s with negotiated hold %d s", p.Cfg.Name, len(ks), hold)
			}
		}
	case s.Kind == "peer_silent" && s.Label == "silence":
		o.silenced[s.Peer] = w.Env.Sim.Now()
	case s.Kind == "checkpoint" && s.Label == "after_silence":
		for pi := range o.admitted {
			p := w.Peers[pi]
			hold := o.negHold[pi]
			est, _ := w.DUT.EstablishedFSM(p)
			stillUp := est != nil && est.Con == p.conn
			if hold == 0 {
				if !stillUp {
					w.Env.Violate("C22", "hold_zero_session_expired", "peer %s: negotiated hold time 0 but the session went down while the peer was silent", p.Cfg.Name)
				}
				continue
			}
			if stillUp {
				w.Env.Violate("C22", "hold_timer_not_enforced", "peer %s: silent for 260 s with negotiated hold %d s but still Established", p.Cfg.Name, hold)
				continue
			}
			// when did the DUT give up? last keepalive received from the peer at most hold/3 before the silence started
			var closedAt time.Duration
			for _, t := range p.ClosedByDUTAt {
				closedAt = t
			}
			if closedAt == 0 {
				continue
			}
			silence := o.silenced[pi]
			lo := silence + time.Duration(hold)*time.Second - time.Duration(hold)*time.Second/3 - 2*time.Second
			hi := silence + time.Duration(hold)*time.Second + 3*time.Second
			if closedAt < lo || closedAt > hi {
				w.Env.Violate("C22", "hold_timer_expiry_time", "peer %s: negotiated hold %d s, peer silent from t=%.1fs, session closed at t=%.1fs (expected between %.1fs and %.1fs)", p.Cfg.Name, hold, silence.Seconds(), closedAt.Seconds(), lo.Seconds(), hi.Seconds())
			}
		}
	}
}

func (o *c22Oracle) Final(w *World) {}

func slug(s string) string {
	out := []byte(s)
	for i, c := range out {
		if !(c >= 'a' && c <= 'z' || c >= '0' && c <= '9' || c >= 'A' && c <= 'Z') {
			out[i] = '_'
		}
	}
	return string(out)
}

func openString(o OpenSpec) string {
	s := fmt.Sprintf("{as=%d hold=%d id=%#x asn4=%v", o.AS, o.HoldTime, o.ID, o.ASN4)
	if o.Role != nil {
		s += fmt.Sprintf(" role=%d", *o.Role)
	}
	if len(o.ExtraRoles) > 0 {
		s += fmt.Sprintf(" +roles=%v", o.ExtraRoles)
	}
	if len(o.AddPath) > 0 {
		s += fmt.Sprintf(" addpath=%v", o.AddPath)
	}
	return s + "}"
}

func notifString(p *Peer, c *Conn) string {
	s := "["
	for _, n := range p.Notifs {
		if n.Conn == c {
			s += fmt.Sprintf("%d/%d ", n.Msg.Notif.Code, n.Msg.Notif.Subcode)
		}
	}
	return s + "]"
}

func init() {
	bgpProps["C19"] = propDef{Gen: genC19, Oracles: func(p *Plan) []Oracle { return []Oracle{&c19Oracle{}} }}
	bgpProps["C21"] = propDef{Gen: genC21, Oracles: func(p *Plan) []Oracle { return []Oracle{&c21Oracle{}} }}
	bgpProps["C22"] = propDef{Gen: genC22, Oracles: func(p *Plan) []Oracle { return []Oracle{&c22Oracle{}} }}
}

package bgp

// C32: the IS-IS LSDB follows the ISO 10589 update process.
//
// Two scripted level 2 neighbours (one per point-to-point interface, adjacency kept Up by
// hellos) send LSPs, CSNPs and PSNPs with sequence numbers and lifetimes from a small domain
// while the mock clock advances. The reference model is the update process of ISO 10589
// 7.3.15/7.3.16 for point-to-point circuits:
//   - database: per LSP id the copy with the highest sequence number, aged once per second and
//     dropped when its lifetime runs out;
//   - flags after an LSP from circuit C: newer -> SRM on all other circuits, SRM(C) cleared,
//     SSN(C) set; same -> SRM(C) cleared, SSN(C) set; older -> SRM(C) set, SSN(C) cleared;
//   - flags after an SNP entry from C: same -> SRM(C) cleared; database newer -> SSN(C) cleared,
//     SRM(C) set; database older -> SRM(C) cleared, SSN(C) set; unknown -> placeholder with
//     sequence 0 and SSN(C); a CSNP additionally sets SRM(C) for every LSP it does not mention;
//   - every 5 s the LSPs with SRM are (re)sent on those circuits and the entries with SSN are
//     acknowledged / requested in a PSNP, after which SSN is clear;
//   - the own LSP: always present, refreshed before it expires, and with a sequence number
//     above every copy of it received from the network.
// The DUT's database and flags (overlay accessor) and the PDUs it sends at the 5 s ticks are
// compared with the model after every step.

import (
	"fmt"
	"sort"
	"strings"
	"time"

	"github.com/bio-routing/bio-rd/protocols/isis/packet"
	isisserver "github.com/bio-routing/bio-rd/protocols/isis/server"
)

func genC32(seed uint64) *Plan {
	r := propRand("C32", seed)
	pl := isisBasePlan("C32", seed, r, 2, r.Chance(0.3), false)
	cfg := pl.ISIS
	for i := range cfg.Ifaces {
		if !cfg.Ifaces[i].Passive {
			cfg.Ifaces[i].Hello, cfg.Ifaces[i].Hold = 3, 9
		}
		pl.Steps = append(pl.Steps, Step{Kind: "is_addif", N: i})
	}
	pl.Steps = append(pl.Steps, Step{Kind: "is_start"})
	// handshake of both neighbours at t=0
	for q := 0; q < 2; q++ {
		for nb := range cfg.Nbrs {
			pl.Steps = append(pl.Steps, isHello(nb, 9, "self"))
		}
	}
	pl.Steps = append(pl.Steps, Step{Kind: "checkpoint", Label: "adjacencies"})
	syss := []uint8{0x31, 0x32, 0x33}
	entries := func() []ISEntry {
		var es []ISEntry
		for _, s := range append(append([]uint8{}, syss...), 0x34, dutSys) {
			if r.Chance(0.55) {
				es = append(es, ISEntry{Sys: s, Seq: uint32(1 + r.Intn(6)), Life: 1000})
			}
		}
		return es
	}
	n := 6 + r.Intn(30)
	for k := 0; k < n; k++ {
		nb := r.Intn(len(cfg.Nbrs))
		switch weighted(r, map[string]int{"lsp": 10, "csnp": 3, "psnp": 4, "run": 8}, []string{"lsp", "csnp", "psnp", "run"}) {
		case "lsp":
			l := &ISLSP{Sys: pick(r, syss), Seq: uint32(1 + r.Intn(6)), Life: pick(r, []uint16{1200, 600, 60, 20})}
			if r.Chance(0.12) {
				l.Sys, l.Life = dutSys, 1200 // a copy of the DUT's own LSP comes back from the network
				l.Seq = uint32(1 + r.Intn(12))
			}
			pl.Steps = append(pl.Steps, Step{Kind: "is_lsp", Peer: nb, IS: &ISStep{LSP: l}})
		case "csnp":
			st := &ISStep{Entries: entries(), Full: true}
			if r.Chance(0.4) {
				// a partial CSNP: only what lies inside its range may be concluded to be missing
				st.Full = false
				st.RangeLo = pick(r, []uint8{0, 49, 50, 51})
				st.RangeHi = pick(r, []uint8{50, 51, 52, 100})
				if st.RangeHi < st.RangeLo {
					st.RangeLo, st.RangeHi = st.RangeHi, st.RangeLo
				}
				var in []ISEntry
				for _, e := range st.Entries {
					if e.Sys >= st.RangeLo && e.Sys <= st.RangeHi {
						in = append(in, e)
					}
				}
				st.Entries = in
			}
			pl.Steps = append(pl.Steps, Step{Kind: "is_csnp", Peer: nb, IS: st})
		case "psnp":
			es := entries()
			if len(es) == 0 {
				es = []ISEntry{{Sys: pick(r, syss), Seq: uint32(1 + r.Intn(6)), Life: 1000}}
			}
			pl.Steps = append(pl.Steps, Step{Kind: "is_psnp", Peer: nb, IS: &ISStep{Entries: es}})
		case "run":
			d := pick(r, []time.Duration{time.Second, 2 * time.Second, 3 * time.Second, 6 * time.Second, 11 * time.Second, 25 * time.Second, 70 * time.Second})
			pl.Steps = append(pl.Steps, Step{Kind: "is_run", GapUS: int64(d / time.Microsecond), N: 3})
		}
	}
	if r.Chance(0.12) {
		// long run: ageing of everything received and refresh of the own LSP
		pl.Steps = append(pl.Steps, Step{Kind: "is_run", GapUS: int64(1900 * time.Second / time.Microsecond), N: 3})
	}
	pl.Steps = append(pl.Steps, Step{Kind: "is_run", GapUS: int64(6 * time.Second / time.Microsecond), N: 3})
	return pl
}

type lspModel struct {
	seq    uint32
	life   int
	srm    map[string]bool
	ssn    map[string]bool
	sentAt map[string]time.Duration
}

func newLSPModel(seq uint32, life int) *lspModel {
	return &lspModel{seq: seq, life: life, srm: map[string]bool{}, ssn: map[string]bool{}}
}

type c32Oracle struct {
	iw        *isisWorld
	db        map[packet.LSPID]*lspModel
	active    []string // names of the active interfaces
	lastT     int      // model time (whole seconds since start) up to which ticks are applied
	sentIdx   int
	ownSeq    uint32
	ownRecv   uint32 // highest sequence number of a copy of the own LSP received from the network
	ownRecvAt time.Duration
	started   bool
	failed    bool
	hasNbr    map[string]bool
	expired   map[packet.LSPID]int // LSPs that aged out, with the second at which they did
}

func (o *c32Oracle) Init(w *World) {
	o.iw = newISISWorld(w)
	o.db = map[packet.LSPID]*lspModel{}
	o.hasNbr = map[string]bool{}
	o.expired = map[packet.LSPID]int{}
	for _, ic := range w.Plan.ISIS.Ifaces {
		if !ic.Passive {
			o.active = append(o.active, ic.Name)
		}
	}
	o.iw.hook = func(kind string, i int, s *Step) { o.after(kind, i, s) }
	o.iw.pre = func(kind string, i int, s *Step) {
		if o.started {
			o.advanceTo(o.iw.now())
		}
	}
}

func (o *c32Oracle) violate(as string, f string, a ...any) {
	o.iw.w.Env.Violate("C32", as, f, a...)
	o.failed = true // the model is re-synchronised from the DUT afterwards (one report per divergence)
}

var ownID = lspID(dutSys, 0)

// sendsAt collects what the DUT sent at mock time T (seconds) per interface.
func (o *c32Oracle) sendsAt(T int) (lsps map[string]map[packet.LSPID]uint32, psnps map[string]map[packet.LSPID]uint32, any bool) {
	lsps, psnps = map[string]map[packet.LSPID]uint32{}, map[string]map[packet.LSPID]uint32{}
	cfg := o.iw.w.Plan.ISIS
	for ; o.sentIdx < len(o.iw.sent); o.sentIdx++ {
		p := o.iw.sent[o.sentIdx]
		if p.at > time.Duration(T)*time.Second {
			break
		}
		if p.at < time.Duration(T)*time.Second {
			continue // sent between ticks: hellos only (checked by type below)
		}
		name := cfg.Ifaces[p.iface].Name
		switch {
		case p.lsp != nil:
			if lsps[name] == nil {
				lsps[name] = map[packet.LSPID]uint32{}
			}
			lsps[name][p.lsp.LSPID] = p.lsp.SequenceNumber
			any = true
		case p.psnp != nil:
			if psnps[name] == nil {
				psnps[name] = map[packet.LSPID]uint32{}
			}
			for _, e := range p.psnp.GetLSPEntries() {
				psnps[name][e.LSPID] = e.SequenceNumber
			}
			any = true
		}
	}
	return
}

// advanceTo applies the once-per-second ageing and the 5 s transmission ticks up to now and
// compares what the DUT sent at those ticks with the flags of the model.
func (o *c32Oracle) advanceTo(now time.Duration) {
	T := int(now / time.Second)
	for t := o.lastT + 1; t <= T; t++ {
		// ageing
		for id, e := range o.db {
			if id == ownID {
				continue // regenerated by the DUT on its own; followed through the DUT's sequence number
			}
			if e.life <= 1 {
				delete(o.db, id)
				o.expired[id] = t
				o.iw.w.Env.probe("lsp_aged_out")
				continue
			}
			e.life--
		}
		if t%5 != 0 {
			continue
		}
		lsps, psnps, _ := o.sendsAt(t)
		if o.failed {
			continue
		}
		// the DUT reissues its own LSP on its own (refresh): a new sequence number on the wire means
		// it was regenerated since the last tick, which sets SRM on every circuit with a neighbour
		for _, m := range lsps {
			if seq, ok := m[ownID]; ok && seq > o.ownSeq {
				n := newLSPModel(seq, 1800)
				for _, c := range o.active {
					o.setSRM(n, c)
				}
				o.db[ownID] = n
				o.ownSeq = seq
				o.iw.w.Env.probe("own_lsp_refreshed_during_run")
			}
		}
		for _, name := range o.active {
			// LSPs with SRM are (re)transmitted, nothing else is
			want := map[packet.LSPID]uint32{}
			for id, e := range o.db {
				if e.srm[name] && e.seq != 0 && (id == ownID || e.life > 3) {
					want[id] = e.seq
				}
			}
			got := lsps[name]
			for id, seq := range want {
				if gs, ok := got[id]; !ok {
					o.violate("lsp_with_srm_not_sent", "t=%ds: LSP %s (sequence %d) has SRM set for %s in the reference model (it must be flooded / retransmitted until acknowledged) but the DUT did not send it at the transmission tick", t, id.String(), seq, name)
				} else if gs != seq && id != ownID {
					o.violate("lsp_sent_with_other_sequence", "t=%ds: on %s the DUT sent LSP %s with sequence %d, the database copy has %d", t, name, id.String(), gs, seq)
				}
			}
			for id, gs := range got {
				if _, ok := want[id]; !ok {
					if e := o.db[id]; e != nil && e.life <= 3 && id != ownID {
						continue
					}
					if x, ok := o.expired[id]; ok && t-x <= 3 {
						continue // it ran out at this very tick
					}
					o.violate("lsp_sent_without_srm", "t=%ds: on %s the DUT sent LSP %s (sequence %d) although it is acknowledged / not due there according to the reference model", t, name, id.String(), gs)
				}
			}
			// entries with SSN are acknowledged or requested in a PSNP
			wantP := map[packet.LSPID]uint32{}
			for id, e := range o.db {
				if e.ssn[name] && (id == ownID || e.life > 3) {
					wantP[id] = e.seq
				}
			}
			gotP := psnps[name]
			for id, seq := range wantP {
				if gs, ok := gotP[id]; !ok {
					o.violate("ssn_entry_not_in_psnp", "t=%ds: LSP %s (sequence %d) has SSN set for %s in the reference model (acknowledge / request) but the DUT's PSNP at this tick does not list it", t, id.String(), seq, name)
				} else if gs != seq && id != ownID {
					o.violate("psnp_entry_with_other_sequence", "t=%ds: the PSNP on %s lists LSP %s with sequence %d, expected %d", t, name, id.String(), gs, seq)
				}
			}
			for id, gs := range gotP {
				if _, ok := wantP[id]; !ok {
					if e := o.db[id]; e != nil && e.life <= 3 {
						continue
					}
					if x, ok := o.expired[id]; ok && t-x <= 3 {
						continue
					}
					o.violate("psnp_entry_without_ssn", "t=%ds: the PSNP on %s lists LSP %s (sequence %d) although nothing is to be acknowledged or requested there", t, name, id.String(), gs)
				}
			}
		}
		for _, e := range o.db {
			e.ssn = map[string]bool{}
		}
	}
	if T > o.lastT {
		o.lastT = T
	}
}

// setSRM: SRM is only kept for circuits on which a neighbour is known (a flag on a circuit
// without any adjacency cannot be observed and bio-rd does not set it; periodic CSNPs cover a
// neighbour that appears later).
func (o *c32Oracle) setSRM(m *lspModel, c string) {
	if o.hasNbr[c] && m.seq != 0 {
		m.srm[c] = true
	}
}

func (o *c32Oracle) otherActive(name string) []string {
	var out []string
	for _, n := range o.active {
		if n != name {
			out = append(out, n)
		}
	}
	return out
}

func (o *c32Oracle) snpEntry(c string, e ISEntry) {
	id := lspID(e.Sys, e.Frag)
	m := o.db[id]
	switch {
	case m == nil:
		m = newLSPModel(0, int(e.Life))
		m.ssn[c] = true
		o.db[id] = m
		o.iw.w.Env.probe("snp_unknown_lsp_requested")
	case m.seq == e.Seq:
		delete(m.srm, c)
		o.iw.w.Env.probe("snp_acknowledges")
	case m.seq > e.Seq:
		delete(m.ssn, c)
		o.setSRM(m, c)
		o.iw.w.Env.probe("snp_reports_older")
	default:
		delete(m.srm, c)
		m.ssn[c] = true
		o.iw.w.Env.probe("snp_reports_newer")
	}
}

func (o *c32Oracle) after(kind string, i int, s *Step) {
	w := o.iw.w
	cfg := w.Plan.ISIS
	now := o.iw.now()
	if len(w.PendingTasks()) > 0 {
		return
	}
	if !o.started {
		if kind == "is_start" {
			o.started = true
			o.syncOwn(true)
		}
		return
	}
	o.advanceTo(now)
	dutAdj := o.iw.dutAdj()
	up := func(nb int) bool {
		nc := cfg.Nbrs[nb]
		st, ok := dutAdj[adjKey(cfg.Ifaces[nc.Iface], nc)]
		e := o.iw.eth[nc.Iface]
		return ok && st == packet.P2PAdjStateUp && e != nil && !e.isDown
	}
	switch kind {
	case "is_hello":
		nc := cfg.Nbrs[s.Peer]
		if e := o.iw.eth[nc.Iface]; e != nil && !e.isDown && s.IS.Adj != "none" {
			o.hasNbr[cfg.Ifaces[nc.Iface].Name] = true
		}
	case "is_lsp", "is_csnp", "is_psnp":
		if !up(s.Peer) {
			w.Env.probe("pdu_from_neighbour_that_is_not_up")
			break
		}
		c := cfg.Ifaces[cfg.Nbrs[s.Peer].Iface].Name
		switch kind {
		case "is_lsp":
			l := s.IS.LSP
			id := lspID(l.Sys, l.Frag)
			if id == ownID {
				// ISO 10589 7.3.16.1: a copy of the own LSP that is newer than the own one makes the
				// system issue a new one with a higher sequence number
				// (a copy with the sequence number we issued ourselves is our own LSP coming back)
				if l.Seq > o.ownSeq && l.Seq > o.ownRecv {
					o.ownRecv, o.ownRecvAt = l.Seq, now
				}
				w.Env.probe("own_lsp_received_from_network")
				o.syncOwn(false)
				if m := o.db[ownID]; m != nil {
					switch {
					case l.Seq == m.seq:
						delete(m.srm, c)
						m.ssn[c] = true
					case l.Seq < m.seq:
						o.setSRM(m, c)
						delete(m.ssn, c)
					}
				}
				break
			}
			m := o.db[id]
			switch {
			case m == nil || l.Seq > m.seq:
				n := newLSPModel(l.Seq, int(l.Life))
				for _, oc := range o.otherActive(c) {
					o.setSRM(n, oc)
				}
				n.ssn[c] = true
				o.db[id] = n
				w.Env.probe("newer_lsp_received")
			case l.Seq == m.seq:
				delete(m.srm, c)
				m.ssn[c] = true
				w.Env.probe("same_lsp_received")
			default:
				o.setSRM(m, c)
				delete(m.ssn, c)
				w.Env.probe("older_lsp_received")
			}
		case "is_csnp":
			o.syncOwn(false)
			listed := map[packet.LSPID]bool{}
			for _, e := range s.IS.Entries {
				listed[lspID(e.Sys, e.Frag)] = true
				o.snpEntry(c, e)
			}
			for id, m := range o.db {
				if !s.IS.Full && (id.SystemID[5] < s.IS.RangeLo || id.SystemID[5] > s.IS.RangeHi) {
					continue // outside the range this CSNP describes
				}
				if !listed[id] && m.seq != 0 && m.life > 0 {
					o.setSRM(m, c)
					w.Env.probe("csnp_misses_lsp")
				}
			}
		case "is_psnp":
			o.syncOwn(false)
			for _, e := range s.IS.Entries {
				o.snpEntry(c, e)
			}
		}
	}
	o.syncOwn(false)
	o.compare(now, fmt.Sprintf("after step %d (%s)", i, kind))
}

// syncOwn follows the DUT's own LSP: whenever its sequence number changed it was regenerated,
// which sets SRM on every circuit.
func (o *c32Oracle) syncOwn(first bool) {
	for _, e := range isisserver.VerifLSDB(o.iw.srv) {
		if e.ID != ownID {
			continue
		}
		if first || e.Seq != o.ownSeq {
			m := newLSPModel(e.Seq, int(e.Lifetime))
			for _, n := range o.active {
				o.setSRM(m, n)
			}
			o.db[ownID] = m
			o.ownSeq = e.Seq
			o.iw.w.Env.probe("own_lsp_regenerated")
		}
		return
	}
}

func flagStr(m map[string]bool) string {
	var s []string
	for k, v := range m {
		if v {
			s = append(s, k)
		}
	}
	sort.Strings(s)
	return strings.Join(s, ",")
}

func onlyActive(names []string, active []string) string {
	var s []string
	for _, n := range names {
		for _, a := range active {
			if a == n {
				s = append(s, n)
			}
		}
	}
	sort.Strings(s)
	return strings.Join(s, ",")
}

func (o *c32Oracle) compare(now time.Duration, when string) {
	dut := map[packet.LSPID]isisserver.VerifLSDBEntry{}
	for _, e := range isisserver.VerifLSDB(o.iw.srv) {
		dut[e.ID] = e
	}
	// the own LSP
	own, ok := dut[ownID]
	switch {
	case !ok:
		o.violate("own_lsp_missing", "%s, t=%v: the database holds no own LSP", when, now)
	case own.Lifetime == 0:
		o.violate("own_lsp_expired", "%s, t=%v: the own LSP has remaining lifetime 0", when, now)
	case o.ownRecv != 0 && own.Seq <= o.ownRecv && now >= o.ownRecvAt:
		o.violate("own_lsp_not_above_received_copy", "%s, t=%v: a copy of the own LSP with sequence number %d was received from the network at t=%v; the own LSP in the database has sequence number %d (it must be reissued with a higher one)", when, now, o.ownRecv, o.ownRecvAt, own.Seq)
		o.ownRecv = 0
	}
	if o.failed {
		o.resync(dut)
		return
	}
	for id, m := range o.db {
		d, ok := dut[id]
		if id == ownID {
			if ok && (flagStr(m.srm) != onlyActive(d.SRM, o.active) || flagStr(m.ssn) != onlyActive(d.SSN, o.active)) {
				o.violate("flags_differ", "%s, t=%v: own LSP (sequence %d): flags SRM=[%s] SSN=[%s], reference model SRM=[%s] SSN=[%s]", when, now, d.Seq, onlyActive(d.SRM, o.active), onlyActive(d.SSN, o.active), flagStr(m.srm), flagStr(m.ssn))
			}
			continue
		}
		if !ok {
			if m.life > 3 {
				o.violate("lsp_missing_from_database", "%s, t=%v: LSP %s (sequence %d, about %ds to live) is not in the database", when, now, id.String(), m.seq, m.life)
			}
			continue
		}
		if d.Seq != m.seq {
			o.violate("database_sequence_differs", "%s, t=%v: LSP %s: database holds sequence %d, the highest received (not aged out) is %d", when, now, id.String(), d.Seq, m.seq)
			continue
		}
		if dl := int(d.Lifetime) - m.life; dl > 2 || dl < -2 {
			o.violate("lifetime_differs", "%s, t=%v: LSP %s (sequence %d): remaining lifetime %d, expected about %d", when, now, id.String(), d.Seq, d.Lifetime, m.life)
			continue
		}
		if m.life <= 3 {
			continue
		}
		if flagStr(m.srm) != onlyActive(d.SRM, o.active) || flagStr(m.ssn) != onlyActive(d.SSN, o.active) {
			o.violate("flags_differ", "%s, t=%v: LSP %s (sequence %d): flags SRM=[%s] SSN=[%s], reference model (ISO 10589 7.3.15) SRM=[%s] SSN=[%s]", when, now, id.String(), d.Seq, onlyActive(d.SRM, o.active), onlyActive(d.SSN, o.active), flagStr(m.srm), flagStr(m.ssn))
		}
	}
	for id, d := range dut {
		if _, ok := o.db[id]; !ok && id != ownID && d.Lifetime > 3 {
			o.violate("database_holds_unknown_lsp", "%s, t=%v: the database holds LSP %s (sequence %d, lifetime %d) which was never received or has aged out", when, now, id.String(), d.Seq, d.Lifetime)
		}
	}
	if o.failed {
		o.resync(dut)
	}
}

// resync: after a reported divergence the model continues from the DUT's state, so that one
// defect is reported once and later checks remain meaningful.
func (o *c32Oracle) resync(dut map[packet.LSPID]isisserver.VerifLSDBEntry) {
	o.db = map[packet.LSPID]*lspModel{}
	for id, d := range dut {
		m := newLSPModel(d.Seq, int(d.Lifetime))
		for _, n := range d.SRM {
			m.srm[n] = true
		}
		for _, n := range d.SSN {
			m.ssn[n] = true
		}
		for k := range m.srm {
			if onlyActive([]string{k}, o.active) == "" {
				delete(m.srm, k)
			}
		}
		for k := range m.ssn {
			if onlyActive([]string{k}, o.active) == "" {
				delete(m.ssn, k)
			}
		}
		o.db[id] = m
		if id == ownID {
			o.ownSeq = d.Seq
		}
	}
	o.failed = false
}

func (o *c32Oracle) AfterStep(w *World, i int, s *Step) {
	if s.Kind == "checkpoint" && s.Label == "adjacencies" {
		cfg := w.Plan.ISIS
		dut := o.iw.dutAdj()
		for _, nc := range cfg.Nbrs {
			if st, ok := dut[adjKey(cfg.Ifaces[nc.Iface], nc)]; !ok || st != packet.P2PAdjStateUp {
				w.Env.Violate("HARNESS", "c32_adjacency_not_up", "the scripted neighbour on %s did not reach Up (present=%v state=%d)", cfg.Ifaces[nc.Iface].Name, ok, st)
			}
		}
	}
}

func (o *c32Oracle) Final(w *World) {
	w.Data["nontrivial"] = w.Env.Probes["newer_lsp_received"] > 0
	w.Data["shape"] = isisShape(o.iw)
}

func init() {
	bgpProps["C32"] = propDef{Gen: genC32, Oracles: func(p *Plan) []Oracle { return []Oracle{&c32Oracle{}} }}
}

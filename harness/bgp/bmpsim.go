package bgp

import (
	"encoding/binary"
	"fmt"
	"net"
	"runtime"
	"sort"
	"strings"
	"time"

	bnet "github.com/bio-routing/bio-rd/net"
	"github.com/bio-routing/bio-rd/protocols/bgp/server"
	"github.com/bio-routing/bio-rd/route"
	"github.com/bio-routing/bio-rd/routingtable"
	"github.com/bio-routing/bio-rd/routingtable/vrf"
	"verif.local/simrt"
)

// bmpsim: the BMP receiver's per-router message loop (Router.serve) fed by a scripted
// monitored router over a simulated connection. Independent BMP encoder (RFC 7854).

const (
	bmpRouteMonitoring = 0
	bmpStats           = 1
	bmpPeerDown        = 2
	bmpPeerUp          = 3
	bmpInitiation      = 4
	bmpTermination     = 5
)

func bmpMsg(t uint8, body []byte) []byte {
	out := make([]byte, 6+len(body))
	out[0] = 3
	binary.BigEndian.PutUint32(out[1:5], uint32(6+len(body)))
	out[5] = t
	copy(out[6:], body)
	return out
}

// BMPPeer is a monitored BGP session of the monitored router.
type BMPPeer struct {
	RD     uint64 `json:"rd"`
	Addr   uint32 `json:"addr"` // IPv4 peer address
	AS     uint32 `json:"as"`
	ID     uint32 `json:"id"`
	ASN4   bool   `json:"asn4"`
	AddPath bool  `json:"addpath,omitempty"` // both OPENs carry add-path send/receive for IPv4
}

func (p BMPPeer) perPeerHeader(post bool) []byte {
	h := make([]byte, 42)
	h[0] = 0 // global instance peer
	if p.RD != 0 {
		h[0] = 1 // RD instance peer
	}
	if post {
		h[1] |= 0x40 // L flag
	}
	if !p.ASN4 {
		h[1] |= 0x20 // A flag: legacy 2-byte AS_PATH format
	}
	binary.BigEndian.PutUint64(h[2:10], p.RD)
	binary.BigEndian.PutUint32(h[22:26], p.Addr) // IPv4 in the last 4 bytes of the 16 byte field
	binary.BigEndian.PutUint32(h[26:30], p.AS)
	binary.BigEndian.PutUint32(h[30:34], p.ID)
	return h
}

func (p BMPPeer) open(localSide bool) []byte {
	o := OpenSpec{AS: 65000, HoldTime: 90, ID: 0x0a0000fe, ASN4: p.ASN4, MPv6: true}
	if !localSide {
		o.AS, o.ID = p.AS, p.ID
	}
	if p.AddPath {
		o.AddPath = map[uint16]uint8{1: 3}
	}
	return EncodeOpen(o)
}

func (p BMPPeer) peerUp() []byte {
	body := p.perPeerHeader(false)
	local := make([]byte, 16)
	binary.BigEndian.PutUint32(local[12:], 0x0a0000fe)
	body = append(body, local...)
	body = append(body, 0, 179, 0x75, 0x30) // local port, remote port
	body = append(body, p.open(true)...)    // sent OPEN (by the monitored router)
	body = append(body, p.open(false)...)   // received OPEN (from the peer)
	return bmpMsg(bmpPeerUp, body)
}

func (p BMPPeer) peerDown() []byte {
	body := p.perPeerHeader(false)
	body = append(body, 4) // reason: remote system closed without notification
	return bmpMsg(bmpPeerDown, body)
}

func (p BMPPeer) routeMonitoring(update []byte, post bool) []byte {
	return bmpMsg(bmpRouteMonitoring, append(p.perPeerHeader(post), update...))
}

func bmpTLVs(kv ...string) []byte {
	var out []byte
	for i := 0; i+1 < len(kv); i += 2 {
		t := uint16(0)
		switch kv[i] {
		case "sysDescr":
			t = 1
		case "sysName":
			t = 2
		}
		out = append(out, byte(t>>8), byte(t), byte(len(kv[i+1])>>8), byte(len(kv[i+1])))
		out = append(out, kv[i+1]...)
	}
	return out
}

// ---------------------------------------------------------------------------------------
// shared executor pieces

type bmpWorld struct {
	router   *server.Router
	conn     *Conn
	serveRet chan error
	served   int
	returned int
	bytesIn  int
}

func (b *bmpWorld) connect(w *World) {
	b.conn = w.Env.NewConn("bmp", &net.TCPAddr{IP: net.IPv4(10, 0, 0, 254), Port: 1790}, &net.TCPAddr{IP: net.IPv4(10, 9, 9, 9), Port: 40000 + b.served}, 100*time.Microsecond, 0)
	b.served++
	c := b.conn
	go func() {
		server.VerifBMPServe(b.router, c)
		b.returned++
	}()
	w.Env.Sim.Settle()
}

func (b *bmpWorld) send(w *World, raw []byte, chunks []int, gap time.Duration) {
	if b.conn == nil {
		return
	}
	b.bytesIn += len(raw)
	if len(chunks) == 0 {
		b.conn.deliver(raw)
		w.Env.Sim.Settle()
		return
	}
	off := 0
	for i := 0; off < len(raw); i++ {
		n := len(raw) - off
		if i < len(chunks) && chunks[i] > 0 && chunks[i] < n {
			n = chunks[i]
		}
		b.conn.deliver(raw[off : off+n])
		w.Env.fault("fragment")
		w.Env.Sim.Settle()
		if gap > 0 {
			w.Env.Sim.RunFor(gap)
		}
		off += n
	}
}

// ---------------------------------------------------------------------------------------
// C28: BMP receiver tables mirror the monitored sessions

func genC28(seed uint64) *Plan {
	r := propRand("C28", seed)
	pl := &Plan{Prop: "C28", Engine: "bmpsim", Seed: seed, DUT: DUTCfg{RouterID: 1, LocalAS: 65000}}
	pl.Sim = SimCfg{ShuffleMaps: r.Chance(0.7), ShuffleTies: r.Chance(0.5)}
	np := 2 + r.Intn(3)
	for i := 0; i < np; i++ {
		rd := uint64(0)
		if r.Chance(0.4) {
			rd = uint64(65000)<<32 | uint64(1+r.Intn(2))
		}
		pl.BMPPeers = append(pl.BMPPeers, BMPPeer{RD: rd, Addr: 0x0a010001 + uint32(i), AS: 65001 + uint32(i), ID: 0x0a010001 + uint32(i), ASN4: !r.Chance(0.2), AddPath: r.Chance(0.3)})
	}
	// Receiver configuration: without an ignore option one policy flavour per run (both feeding one table has no
	// defined meaning); with "ignore pre" or "ignore post" both flavours are sent and only one may be mirrored.
	post := r.Chance(0.5)
	ignore := int64(0)
	if r.Chance(0.4) {
		ignore = int64(1 + r.Intn(2)) // 1: ignore pre-policy, 2: ignore post-policy
	}
	ignoreAS := int64(0)
	if r.Chance(0.25) {
		ignoreAS = int64(65001 + r.Intn(np))
	}
	pl.Params = map[string]int64{"post": int64(b2i(post)), "ignore": ignore, "ignore_as": ignoreAS}
	pool := []Prefix{P4(198, 18, 0, 0, 16), P4(198, 18, 1, 0, 24), P4(198, 18, 1, 128, 25), P4(198, 19, 0, 0, 24), P6(0x20010db800010000, 0, 48), P6(0x20010db800010000, 0, 64)}
	tag := uint32(20000)
	up := make([]bool, np)
	connected := false
	n := 10 + r.Intn(40)
	for i := 0; i < n; i++ {
		if !connected {
			pl.Steps = append(pl.Steps, Step{Kind: "bmp_connect"})
			pl.Steps = append(pl.Steps, Step{Kind: "bmp_init"})
			connected = true
			for k := range up {
				up[k] = false
			}
			continue
		}
		pi := r.Intn(np)
		switch weighted(r, map[string]int{"up": 4, "route": 12, "down": 2, "term": 1, "close": 1, "stats": 1}, []string{"up", "route", "down", "term", "close", "stats"}) {
		case "up":
			if !up[pi] {
				st := Step{Kind: "bmp_peer_up", Peer: pi}
				if ignoreAS != 0 && r.Chance(0.35) {
					// the session comes up with the ignored AS, or with its own one again
					st.N = int(pick(r, []int64{ignoreAS, int64(65001 + pi)}))
				}
				pl.Steps = append(pl.Steps, st)
				up[pi] = true
			}
		case "route":
			if !up[pi] {
				continue
			}
			p := pick(r, pool)
			st := Step{Kind: "bmp_route", Peer: pi, Pfx: []Prefix{p}, V6: p.V6, On: post}
			if ignore != 0 {
				st.On = r.Chance(0.5)
			}
			if r.Chance(0.3) {
				st.Label = "withdraw"
			} else {
				tag++
				st.Label = "announce"
				st.Attr = &AttrSpec{ASPath: []Segment{{2, []uint32{pl.BMPPeers[pi].AS, 150, tag}}}, NextHop: pl.BMPPeers[pi].Addr}
				if !p.V6 && r.Chance(0.3) {
					for k := 0; k < 2; k++ {
						q := pick(r, pool[:4])
						if q != p {
							st.Pfx = append(st.Pfx, q)
							break
						}
					}
				}
			}
			if pl.BMPPeers[pi].AddPath && !p.V6 {
				for range st.Pfx {
					st.PathIDs = append(st.PathIDs, uint32(r.Intn(3)))
				}
			}
			if st.Label == "announce" && r.Chance(0.25) {
				// the same UPDATE withdraws as well: another prefix of the family, or (IPv4, classic
				// encoding) the very prefix it announces - then the announcement is what holds
				q := pick(r, pool)
				if q.V6 == p.V6 && q != p {
					st.Wd = append(st.Wd, q)
				} else if !p.V6 {
					st.Wd = append(st.Wd, p)
				}
				if pl.BMPPeers[pi].AddPath && !p.V6 {
					for k := range st.Wd {
						if st.Wd[k] == p {
							st.WdIDs = append(st.WdIDs, st.PathIDs[0])
						} else {
							st.WdIDs = append(st.WdIDs, uint32(r.Intn(3)))
						}
					}
				}
			}
			st.Chunks, st.ChunkGapUS = randChunks(r, 0.15)
			pl.Steps = append(pl.Steps, st)
		case "down":
			if up[pi] {
				pl.Steps = append(pl.Steps, Step{Kind: "bmp_peer_down", Peer: pi})
				up[pi] = false
			}
		case "stats":
			pl.Steps = append(pl.Steps, Step{Kind: "bmp_stats", Peer: pi})
		case "term":
			pl.Steps = append(pl.Steps, Step{Kind: "bmp_term"})
			connected = false
		case "close":
			pl.Steps = append(pl.Steps, Step{Kind: "bmp_close"})
			connected = false
		}
	}
	return pl
}

type bmpObserver struct {
	name     string
	held     map[Prefix]map[uint32]int
	disposed bool
}

func (c *bmpObserver) add(pfx *bnet.Prefix, p *route.Path) {
	k := FromBnetPrefix(pfx)
	if c.held[k] == nil {
		c.held[k] = map[uint32]int{}
	}
	c.held[k][CanonFromPath(p).Tag()]++
}
func (c *bmpObserver) AddPath(pfx *bnet.Prefix, p *route.Path) error            { c.add(pfx, p); return nil }
func (c *bmpObserver) AddPathInitialDump(pfx *bnet.Prefix, p *route.Path) error { c.add(pfx, p); return nil }
func (c *bmpObserver) EndOfRIB()                                                {}
func (c *bmpObserver) RemovePath(pfx *bnet.Prefix, p *route.Path) bool {
	k := FromBnetPrefix(pfx)
	t := CanonFromPath(p).Tag()
	if c.held[k][t] > 0 {
		c.held[k][t]--
		if c.held[k][t] == 0 {
			delete(c.held[k], t)
		}
	}
	return true
}
func (c *bmpObserver) ReplacePath(pfx *bnet.Prefix, o *route.Path, n *route.Path) {
	c.RemovePath(pfx, o)
	c.add(pfx, n)
}
func (c *bmpObserver) RefreshRoute(*bnet.Prefix, []*route.Path) {}
func (c *bmpObserver) Dispose()                                  { c.disposed = true; c.held = map[Prefix]map[uint32]int{} }

type c28Oracle struct {
	bw      bmpWorld
	up      []bool
	model   []map[viewKey]uint32 // per peer: (prefix, path id) -> tag
	peers   []BMPPeer               // the monitored sessions as they currently are (AS may change at peer-up)
	obs     map[string]*bmpObserver // per vrf name / family
	seenVRF map[string]*vrf.VRF
}

func (o *c28Oracle) Init(w *World) {
	cfg := server.RouterConfig{IgnorePrePolicy: w.Plan.Params["ignore"] == 1, IgnorePostPolicy: w.Plan.Params["ignore"] == 2}
	if as := w.Plan.Params["ignore_as"]; as != 0 {
		cfg.IgnorePeerASNs = []uint32{uint32(as)}
	}
	o.bw.router = server.VerifNewBMPRouter(net.IPv4(10, 9, 9, 9), cfg)
	simrt.LabelPointer(o.bw.router)
	n := len(w.Plan.BMPPeers)
	o.up = make([]bool, n)
	o.model = make([]map[viewKey]uint32, n)
	o.obs = map[string]*bmpObserver{}
	o.seenVRF = map[string]*vrf.VRF{}
	for i := range o.model {
		o.model[i] = map[viewKey]uint32{}
	}
	for _, k := range []string{"bmp_connect", "bmp_init", "bmp_peer_up", "bmp_route", "bmp_peer_down", "bmp_term", "bmp_close", "bmp_stats"} {
		k := k
		w.Data["exec:"+k] = func(w *World, i int, s *Step) { o.apply(w, i, s, k) }
	}
}

func (o *c28Oracle) reset() {
	for i := range o.up {
		o.up[i] = false
		o.model[i] = map[viewKey]uint32{}
	}
}

func (o *c28Oracle) apply(w *World, i int, s *Step, kind string) {
	if o.peers == nil {
		o.peers = append([]BMPPeer(nil), w.Plan.BMPPeers...)
	}
	peers := o.peers
	if kind == "bmp_peer_up" && s.N != 0 {
		// the monitored session comes up with another AS than last time (the neighbour was replaced);
		// whether it is an ignored AS is decided by what the session has now
		peers[s.Peer].AS = uint32(s.N)
	}
	ignore := w.Plan.Params["ignore"]
	post := s.On || (ignore == 0 && w.Plan.Params["post"] == 1)
	// does the receiver's configuration say that this message is mirrored?
	mirrored := !(ignore == 1 && !post) && !(ignore == 2 && post)
	if kind != "bmp_connect" && kind != "bmp_init" && kind != "bmp_term" && kind != "bmp_close" && int64(peers[s.Peer].AS) == w.Plan.Params["ignore_as"] {
		mirrored = false
	}
	if o.bw.conn == nil && kind != "bmp_connect" {
		return // nothing can be sent without a connection (only reachable in shrunk plans)
	}
	switch kind {
	case "bmp_connect":
		o.bw.connect(w)
		o.reset()
	case "bmp_init":
		o.bw.send(w, bmpMsg(bmpInitiation, bmpTLVs("sysName", "r1", "sysDescr", "scripted")), nil, 0)
	case "bmp_peer_up":
		o.bw.send(w, peers[s.Peer].peerUp(), s.Chunks, us(s.ChunkGapUS))
		o.up[s.Peer] = true
		o.model[s.Peer] = map[viewKey]uint32{}
		o.watchVRFs(w)
	case "bmp_peer_down":
		o.bw.send(w, peers[s.Peer].peerDown(), nil, 0)
		o.up[s.Peer] = false
		o.model[s.Peer] = map[viewKey]uint32{}
	case "bmp_stats":
		body := peers[s.Peer].perPeerHeader(false)
		body = append(body, 0, 0, 0, 1, 0, 0, 0, 4, 0, 0, 0, 7) // one counter TLV: type 0 (rejected prefixes), length 4
		o.bw.send(w, bmpMsg(bmpStats, body), nil, 0)
	case "bmp_route":
		p := peers[s.Peer]
		ap := p.AddPath && !s.V6
		u := UpdateSpec{V6: s.V6, ASN4: p.ASN4, AddPath: ap}
		var nl []NLRI
		for k, pfx := range s.Pfx {
			id := uint32(0)
			if k < len(s.PathIDs) {
				id = s.PathIDs[k]
			}
			nl = append(nl, NLRI{Prefix: pfx, PathID: id})
		}
		var wd []NLRI
		if s.Label == "withdraw" {
			u.Withdraw = nl
		} else {
			u.Announce = nl
			u.Attrs = s.Attr.Attrs(s.V6)
			for k, pfx := range s.Wd {
				id := uint32(0)
				if k < len(s.WdIDs) {
					id = s.WdIDs[k]
				}
				wd = append(wd, NLRI{Prefix: pfx, PathID: id})
			}
			u.Withdraw = wd
		}
		o.bw.send(w, p.routeMonitoring(EncodeUpdate(u), post), s.Chunks, us(s.ChunkGapUS))
		if mirrored {
			w.Env.probe("bmp_route_mirrored")
		} else {
			w.Env.probe("bmp_route_ignored_by_config")
		}
		if o.up[s.Peer] && mirrored {
			for _, n := range wd {
				// withdrawn routes of a mixed UPDATE first; an announcement of the same NLRI wins
				id := n.PathID
				if !ap {
					id = 0
				}
				delete(o.model[s.Peer], viewKey{n.Prefix, id})
			}
			for _, n := range nl {
				id := n.PathID
				if !ap {
					id = 0
				}
				if s.Label == "withdraw" {
					delete(o.model[s.Peer], viewKey{n.Prefix, id})
				} else {
					o.model[s.Peer][viewKey{n.Prefix, id}] = s.Attr.Tag()
				}
			}
		}
	case "bmp_term":
		o.bw.send(w, bmpMsg(bmpTermination, []byte{0, 1, 0, 2, 0, 0}), nil, 0)
		w.Env.Sim.RunFor(us(5000))
		o.afterSessionEnd(w, "termination message")
		o.reset()
		o.bw.conn = nil
	case "bmp_close":
		if o.bw.conn != nil {
			o.bw.conn.peerClose(false)
			w.Env.fault("connection_lost")
			w.Env.Sim.Settle()
			w.Env.Sim.RunFor(us(5000))
		}
		o.afterSessionEnd(w, "loss of the BMP connection")
		o.reset()
		o.bw.conn = nil
	}
	if len(w.PendingTasks()) == 0 && len(w.Env.Sim.BlockedOnLocks()) == 0 {
		o.check(w, fmt.Sprintf("after step %d (%s %s)", i, kind, s.Label))
	}
}

// watchVRFs registers a recording observer on every per-VRF Loc-RIB that exists.
func (o *c28Oracle) watchVRFs(w *World) {
	for _, v := range o.bw.router.GetVRFs() {
		for _, fam := range []string{"v4", "v6"} {
			key := v.Name() + "/" + fam
			if _, ok := o.obs[key]; ok && o.seenVRF[key] == v {
				continue
			}
			ob := &bmpObserver{name: key, held: map[Prefix]map[uint32]int{}}
			simrt.LabelPointer(ob)
			o.obs[key] = ob
			o.seenVRF[key] = v
			// an observer that wants every path (a best-only client would legitimately see less than the table holds)
			all := routingtable.ClientOptions{MaxPaths: 64}
			if fam == "v4" {
				v.IPv4UnicastRIB().RegisterWithOptions(ob, all)
			} else {
				v.IPv6UnicastRIB().RegisterWithOptions(ob, all)
			}
		}
	}
	w.Env.Sim.Settle()
}

func rdName(rd uint64) string { return fmt.Sprintf("%d:%d", rd>>32, rd&0xffffffff) }

func (o *c28Oracle) expected(w *World) map[string]map[string]int {
	exp := map[string]map[string]int{}
	for pi, p := range w.Plan.BMPPeers {
		if !o.up[pi] {
			continue
		}
		for k, tag := range o.model[pi] {
			fam := "v4"
			if k.Pfx.V6 {
				fam = "v6"
			}
			key := rdName(p.RD) + "/" + fam
			if exp[key] == nil {
				exp[key] = map[string]int{}
			}
			exp[key][fmt.Sprintf("%s tag=%d", k.Pfx, tag)]++
		}
	}
	return exp
}

func (o *c28Oracle) check(w *World, when string) {
	exp := o.expected(w)
	got := map[string]map[string]int{}
	for _, v := range o.bw.router.GetVRFs() {
		for fi, fam := range []string{"v4", "v6"} {
			rib := v.IPv4UnicastRIB()
			if fi == 1 {
				rib = v.IPv6UnicastRIB()
			}
			if rib == nil {
				continue
			}
			key := v.Name() + "/" + fam
			for pfx, ps := range DumpRoutes(rib.Dump()) {
				for _, c := range ps {
					if got[key] == nil {
						got[key] = map[string]int{}
					}
					got[key][fmt.Sprintf("%s tag=%d", pfx, c.Tag())]++
				}
			}
		}
	}
	keys := map[string]bool{}
	for k := range exp {
		keys[k] = true
	}
	for k := range got {
		keys[k] = true
	}
	var ks []string
	for k := range keys {
		ks = append(ks, k)
	}
	sort.Strings(ks)
	for _, k := range ks {
		if d := diffCounts(exp[k], got[k]); d != "" {
			w.Env.Violate("C28", "vrf_table_differs_from_up_peers_routes", "%s: table %s: %s", when, k, d)
		}
	}
	// observers hold what the tables hold
	for key, ob := range o.obs {
		if ob.disposed {
			continue
		}
		want := map[string]int{}
		for k, n := range got[key] {
			want[k] = n
		}
		have := map[string]int{}
		for pfx, m := range ob.held {
			for t, n := range m {
				have[fmt.Sprintf("%s tag=%d", pfx, t)] += n
			}
		}
		if d := diffCounts(want, have); d != "" {
			w.Env.Violate("C28", "observer_not_informed", "%s: observer of %s holds a different set than the table: %s", when, key, d)
		}
	}
}

// afterSessionEnd: nothing learned over the session remains and observers were told.
func (o *c28Oracle) afterSessionEnd(w *World, why string) {
	if o.bw.returned < o.bw.served {
		w.Env.Violate("C28", "serve_did_not_return", "after %s the router's message loop did not return", why)
	}
	for _, v := range o.bw.router.GetVRFs() {
		for fi, rib := range []interface{ Dump() []*route.Route }{v.IPv4UnicastRIB(), v.IPv6UnicastRIB()} {
			if rib == nil {
				continue
			}
			if n := len(rib.Dump()); n > 0 {
				w.Env.Violate("C28", "routes_survive_session_end", "after %s VRF %s family %d still holds %d routes", why, v.Name(), fi, n)
			}
		}
	}
	if nb := server.VerifBMPNeighbors(o.bw.router); len(nb) > 0 {
		w.Env.Violate("C28", "neighbors_survive_session_end", "after %s the router still knows neighbours %v", why, nb)
	}
	for key, ob := range o.obs {
		if !ob.disposed {
			n := 0
			for _, m := range ob.held {
				n += len(m)
			}
			if n > 0 {
				w.Env.Violate("C28", "observer_not_informed", "after %s the observer of %s still holds %d paths and was not told that the table is gone", why, key, n)
			}
		}
	}
	o.obs = map[string]*bmpObserver{}
	o.seenVRF = map[string]*vrf.VRF{}
}

func (o *c28Oracle) AfterStep(w *World, i int, s *Step) {}
func (o *c28Oracle) Final(w *World) {
	w.Data["nontrivial"] = o.bw.bytesIn > 200
	w.Data["shape"] = fmt.Sprintf("%d/%d", o.bw.served, o.bw.bytesIn/64)
}

// ---------------------------------------------------------------------------------------
// C27: a monitored router cannot crash or exhaust the BMP receiver

func genC27(seed uint64) *Plan {
	r := propRand("C27", seed)
	pl := &Plan{Prop: "C27", Engine: "bmpsim", Seed: seed, DUT: DUTCfg{RouterID: 1, LocalAS: 65000}}
	pl.Sim = SimCfg{ShuffleMaps: r.Chance(0.5)}
	p := BMPPeer{RD: 0, Addr: 0x0a010001, AS: 65001, ID: 0x0a010001, ASN4: true}
	pl.BMPPeers = []BMPPeer{p}
	valid := [][]byte{
		bmpMsg(bmpInitiation, bmpTLVs("sysName", "r1")),
		p.peerUp(),
		p.routeMonitoring(EncodeUpdate(UpdateSpec{Announce: []NLRI{{Prefix: P4(198, 18, 0, 0, 16)}}, Attrs: AttrSpec{ASPath: []Segment{{2, []uint32{65001, 20001}}}, NextHop: 0x0a010001}.Attrs(false), ASN4: true}), false),
		bmpMsg(bmpStats, append(p.perPeerHeader(false), 0, 0, 0, 1, 0, 0, 0, 4, 0, 0, 0, 7)),
		p.peerDown(),
		bmpMsg(bmpTermination, []byte{0, 1, 0, 2, 0, 0}),
	}
	rounds := 1 + r.Intn(3)
	for k := 0; k < rounds; k++ {
		pl.Steps = append(pl.Steps, Step{Kind: "bmp_connect"})
		n := 1 + r.Intn(6)
		for i := 0; i < n; i++ {
			var raw []byte
			label := ""
			base := append([]byte(nil), valid[r.Intn(len(valid))]...)
			switch r.Intn(16) {
			case 15:
				// total lengths around the receive buffer size (4096): complete messages of exactly
				// that size, or only the header announcing it
				l := pick(r, []int{4090, 4095, 4096, 4097, 4098, 4100, 4102, 4103, 4110, 8192, 8193})
				info := make([]byte, l-6-4)
				for j := range info {
					info[j] = 'a' + byte(j%26)
				}
				raw = bmpMsg(bmpInitiation, append([]byte{0, 0, byte(len(info) >> 8), byte(len(info))}, info...))
				if r.Chance(0.3) {
					raw = raw[:6+r.Intn(20)]
				}
				label = fmt.Sprintf("length_%d", l)
			case 14:
				// a long initiation / termination message made of very many tiny TLVs
				n := pick(r, []int{500, 4000, 16000})
				body := make([]byte, 0, n*5)
				typ := pick(r, []byte{0, 1, 2})
				for j := 0; j < n; j++ {
					if r.Chance(0.5) {
						body = append(body, 0, typ, 0, 0)
					} else {
						body = append(body, 0, typ, 0, 1, 'x')
					}
				}
				mt := pick(r, []uint8{bmpInitiation, bmpTermination})
				if mt == bmpTermination {
					for j := 0; j+4 <= len(body); {
						body[j+1] = 0 // termination: free-form string TLVs (type 0)
						j += 4 + int(body[j+3])
					}
				}
				raw = bmpMsg(mt, body)
				label = "many_tiny_tlvs"
			case 12, 13:
				// route monitoring that wraps a BGP message other than an UPDATE, for a peer that is up
				if r.Chance(0.8) {
					pl.Steps = append(pl.Steps, Step{Kind: "bmp_raw", Hex: hexEncode(p.peerUp()), Label: "valid"})
				}
				inner := pick(r, [][]byte{EncodeNotification(6, 2, nil), EncodeKeepalive(), EncodeOpen(OpenSpec{Version: 4, AS: p.AS, HoldTime: 90, ID: p.ID, ASN4: true})})
				raw = p.routeMonitoring(inner, r.Chance(0.3))
				label = fmt.Sprintf("route_monitoring_wraps_bgp_type_%d", inner[18])
			case 0:
				raw, label = base, "valid"
			case 1:
				raw = base
				binary.BigEndian.PutUint32(raw[1:5], uint32(r.Intn(6))) // length below the header size
				label = "length_below_header"
			case 2:
				raw = base[:6]
				binary.BigEndian.PutUint32(raw[1:5], pick(r, []uint32{0xffffffff, 0x7fffffff, 0x10000000, 1 << 20})) // huge declared length, no body
				label = "huge_length"
			case 3:
				raw = base
				binary.BigEndian.PutUint32(raw[1:5], uint32(len(raw)-1-r.Intn(len(raw)-6))) // shorter than the content
				raw = raw[:binary.BigEndian.Uint32(raw[1:5])]
				label = "truncated_body"
			case 4:
				// statistics report with a huge count
				// (values whose product with the TLV header size wraps around 32 bits included)
				cnt := pick(r, []uint32{0xffffffff, 0x40000000, 0x80000000, 0x40000001, 0x00ffffff, 0x3fffffff, 70000})
				b := append(p.perPeerHeader(false), byte(cnt>>24), byte(cnt>>16), byte(cnt>>8), byte(cnt))
				if r.Chance(0.5) {
					b = append(b, 0, 0, 0, 4, 0, 0, 0, 1) // one real counter after the lie
				}
				raw = bmpMsg(bmpStats, b)
				label = "huge_stats_count"
			case 5:
				// TLV with a length beyond the message
				raw = bmpMsg(pick(r, []uint8{bmpInitiation, bmpTermination}), []byte{0, 2, 0xff, 0xff, 'x'})
				label = "tlv_length_beyond_message"
			case 6:
				raw = bmpMsg(pick(r, []uint8{bmpInitiation, bmpTermination}), []byte{0, 1})
				label = "truncated_tlv"
			case 7:
				// empty termination reason TLV
				raw = bmpMsg(bmpTermination, []byte{0, 1, 0, 0})
				label = "empty_reason_tlv"
			case 8:
				// peer up whose OPENs disagree with the per-peer header / are damaged
				q := p
				q.AS = 64999
				raw = q.peerUp()
				copy(raw[6:48], p.perPeerHeader(false)) // header of p, OPENs of q
				if r.Chance(0.5) {
					raw[6+42+20+19+9] = 0xff // optional parameter length of the sent OPEN beyond its content
				}
				label = "peer_up_open_mismatch"
			case 9:
				raw = make([]byte, 1+r.Intn(200))
				for j := range raw {
					raw[j] = byte(r.Uint64())
				}
				label = "noise"
			case 10:
				raw = base
				raw[6+r.Intn(len(raw)-6)] ^= byte(1 << uint(r.Intn(8)))
				label = "bitflip"
			default:
				// route monitoring for a peer that is not up / with a damaged UPDATE
				raw = p.routeMonitoring([]byte{0xff, 0xff, 0xff, 0xff, 0xff, 0xff, 0xff, 0xff, 0xff, 0xff, 0xff, 0xff, 0xff, 0xff, 0xff, 0xff, 0, 23, 2, 0, 0, 0xff, 0xff}, false)
				label = "damaged_update"
			}
			st := Step{Kind: "bmp_raw", Hex: hexEncode(raw), Label: label}
			st.Chunks, st.ChunkGapUS = randChunks(r, 0.3)
			pl.Steps = append(pl.Steps, st)
		}
		if r.Chance(0.7) {
			pl.Steps = append(pl.Steps, Step{Kind: "bmp_close", Label: "eof"})
		} else {
			pl.Steps = append(pl.Steps, Step{Kind: "bmp_stall", GapUS: 5_000_000, Label: "stall"})
			pl.Steps = append(pl.Steps, Step{Kind: "bmp_close", Label: "eof"})
		}
	}
	return pl
}

type c27Oracle struct {
	bw        bmpWorld
	allocBase uint64
	bytesBase int
}

func totalAlloc() uint64 {
	var m runtime.MemStats
	runtime.ReadMemStats(&m)
	return m.TotalAlloc
}

func (o *c27Oracle) Init(w *World) {
	o.bw.router = server.VerifNewBMPRouter(net.IPv4(10, 9, 9, 9), server.RouterConfig{})
	simrt.LabelPointer(o.bw.router)
	w.Data["exec:bmp_connect"] = func(w *World, i int, s *Step) {
		o.bw.connect(w)
		o.allocBase = totalAlloc()
		o.bytesBase = o.bw.bytesIn
	}
	w.Data["exec:bmp_raw"] = func(w *World, i int, s *Step) {
		o.bw.send(w, mustHex(s.Hex), s.Chunks, us(s.ChunkGapUS))
		w.Env.probe("c27_" + s.Label)
		o.checkAlloc(w, fmt.Sprintf("after step %d (%s)", i, s.Label))
	}
	w.Data["exec:bmp_stall"] = func(w *World, i int, s *Step) {}
	w.Data["exec:bmp_close"] = func(w *World, i int, s *Step) {
		if o.bw.conn == nil {
			return
		}
		if !o.bw.conn.ClosedByDUT() {
			o.bw.conn.peerClose(false)
		}
		w.Env.Sim.Settle()
		w.Env.Sim.RunFor(us(10_000))
		if o.bw.returned < o.bw.served {
			w.Env.Violate("C27", "serve_wedged_after_eof", "the router's message loop did not return after the connection was closed (bytes delivered on this connection: %d)", o.bw.bytesIn-o.bytesBase)
		}
		o.checkAlloc(w, "after EOF")
		o.bw.conn = nil
	}
}

func (o *c27Oracle) checkAlloc(w *World, when string) {
	grown := totalAlloc() - o.allocBase
	bytes := o.bw.bytesIn - o.bytesBase
	limit := uint64(1<<20) + 256*uint64(bytes)
	if grown > limit {
		w.Env.Violate("C27", "allocation_out_of_proportion", "%s: %d bytes allocated while handling %d bytes received on this connection (bound 1 MiB + 256 x bytes)", when, grown, bytes)
		o.allocBase = totalAlloc() // report once per excess
	}
}

func (o *c27Oracle) AfterStep(w *World, i int, s *Step) {}
func (o *c27Oracle) Final(w *World) {
	w.Data["nontrivial"] = o.bw.bytesIn > 20
	var ls []string
	for _, s := range w.Plan.Steps {
		ls = append(ls, s.Label)
	}
	w.Data["shape"] = strings.Join(ls, ",")
}

func init() {
	bgpProps["C27"] = propDef{Gen: genC27, Oracles: func(p *Plan) []Oracle { return []Oracle{&c27Oracle{}} }}
	bgpProps["C28"] = propDef{Gen: genC28, Oracles: func(p *Plan) []Oracle { return []Oracle{&c28Oracle{}} }}
}

package bgp

// isissim: the real IS-IS server (protocols/isis/server) on simulated interfaces.
//
// Seams used (all public in bio-rd): the package clock (server.SetClock with benbjohnson's
// mock clock, moved only by the plan), the ethernet interface factory
// (SetEthernetInterfaceFactory: frames sent by the DUT are recorded, frames of scripted
// neighbours are injected), the device updater (link up/down events) and the hostname
// function. Product mutexes and map iterations of the IS-IS server are the simulator's
// (overlay), so goroutine interleavings at lock boundaries are seeded like in bgpsim.
// Scripted neighbours and the decoding of what the DUT sends use bio-rd's own IS-IS packet
// package (trusted here: C31-C33 are about the server's state machines, not the codec).

import (
	"bytes"
	"errors"
	"fmt"
	"os"
	"runtime/debug"
	"sort"
	"time"

	bbclock "github.com/benbjohnson/clock"
	bnet "github.com/bio-routing/bio-rd/net"
	"github.com/bio-routing/bio-rd/net/ethernet"
	"github.com/bio-routing/bio-rd/protocols/device"
	"github.com/bio-routing/bio-rd/protocols/isis/packet"
	isisserver "github.com/bio-routing/bio-rd/protocols/isis/server"
	"github.com/bio-routing/bio-rd/protocols/isis/types"
	"verif.local/simrt"
)

// ISISCfg is the static part of an isissim plan.
type ISISCfg struct {
	Ifaces []ISIface `json:"ifaces"`
	Nbrs   []ISNbr   `json:"nbrs"`
	// state of the devices when the interfaces are configured: "up", "down" or "unknown"
	Initial []string `json:"initial"`
}

// ISIface is one IS-IS interface of the DUT.
type ISIface struct {
	Name    string `json:"name"`
	Passive bool   `json:"passive,omitempty"`
	Hello   uint16 `json:"hello"`
	Hold    uint16 `json:"hold"`
	Metric  uint32 `json:"metric"`
	Index   uint64 `json:"index"`
	Net     uint8  `json:"net"` // interface address 10.<net>.0.1/24
}

// ISNbr is a scripted neighbour on one interface.
type ISNbr struct {
	Iface   int    `json:"iface"`
	Sys     uint8  `json:"sys"` // system id 0000.0000.00<sys>
	Circuit uint32 `json:"circuit"`
}

// ISStep describes a PDU of a scripted neighbour.
type ISStep struct {
	Hold    uint16    `json:"hold,omitempty"`
	Adj     string    `json:"adj,omitempty"` // none | down | self | other | wrongcircuit
	LSP     *ISLSP    `json:"lsp,omitempty"`
	Entries []ISEntry `json:"entries,omitempty"` // CSNP / PSNP
	Full    bool      `json:"full,omitempty"`    // CSNP covers the whole LSP id range
	Lo, Hi  uint8     `json:"-"`                 // (see RangeLo / RangeHi)
	RangeLo uint8     `json:"range_lo,omitempty"` // partial CSNP: first ...
	RangeHi uint8     `json:"range_hi,omitempty"` // ... and last originator (0000.0000.00xx) it covers
}

// ISLSP identifies an LSP version.
type ISLSP struct {
	Sys  uint8  `json:"sys"` // originator 0000.0000.00<sys>; 0xd0 is the DUT
	Frag uint8  `json:"frag,omitempty"`
	Seq  uint32 `json:"seq"`
	Life uint16 `json:"life"`
}

// ISEntry is an LSP entry of a sequence number PDU.
type ISEntry struct {
	Sys  uint8  `json:"sys"`
	Frag uint8  `json:"frag,omitempty"`
	Seq  uint32 `json:"seq"`
	Life uint16 `json:"life"`
}

const dutSys = 0xd0

func sysID(b uint8) types.SystemID { return types.SystemID{0, 0, 0, 0, 0, b} }
func nbrMAC(b uint8) ethernet.MACAddr {
	return ethernet.MACAddr{0x02, 0, 0, 0, 0, b}
}
func lspID(sys, frag uint8) packet.LSPID {
	return packet.LSPID{SystemID: sysID(sys), PseudonodeID: 0, LSPNumber: frag}
}

var isisArea = types.AreaID{0x49, 0x00, 0x01}

// ---- simulated device updater

type simDevice struct {
	index uint64
	state uint8
	addrs []*bnet.Prefix
}

func (d *simDevice) GetIndex() uint64         { return d.index }
func (d *simDevice) GetOperState() uint8      { return d.state }
func (d *simDevice) GetAddrs() []*bnet.Prefix { return d.addrs }

type simDevUpdater struct {
	known   map[string]*simDevice
	clients map[string][]device.Client
}

func (u *simDevUpdater) Subscribe(c device.Client, name string) {
	u.clients[name] = append(u.clients[name], c)
	if d := u.known[name]; d != nil {
		cp := *d
		c.DeviceUpdate(&cp)
	}
}
func (u *simDevUpdater) Unsubscribe(c device.Client, name string) {
	cs := u.clients[name]
	for i := range cs {
		if cs[i] == c {
			u.clients[name] = append(cs[:i:i], cs[i+1:]...)
			return
		}
	}
}
func (u *simDevUpdater) Start() error { return nil }

// ---- simulated ethernet interface

var errEthClosed = errors.New("simeth: interface closed")

type rxFrame struct {
	src ethernet.MACAddr
	pkt []byte
}

type simEth struct {
	iw     *isisWorld
	iface  int
	gen    int
	rx     chan rxFrame
	closed chan struct{}
	isDown bool
}

func (e *simEth) RecvPacket() ([]byte, ethernet.MACAddr, error) {
	select {
	case f := <-e.rx:
		return f.pkt, f.src, nil
	case <-e.closed:
		return nil, ethernet.MACAddr{}, errEthClosed
	}
}

func (e *simEth) SendPacket(dst ethernet.MACAddr, pkt []byte) error {
	if e.isDown {
		return errEthClosed
	}
	e.iw.recordSent(e, pkt)
	return nil
}
func (e *simEth) MCastJoin(ethernet.MACAddr) error { return nil }
func (e *simEth) GetMTU() int                      { return 1500 }
func (e *simEth) Close() {
	if !e.isDown {
		e.isDown = true
		close(e.closed)
	}
}

type simEthFactory struct{ iw *isisWorld }

func (f *simEthFactory) New(name string, bpf *ethernet.BPF, llc ethernet.LLC) (ethernet.EthernetInterfaceI, error) {
	iw := f.iw
	for i, ic := range iw.cfg.Ifaces {
		if ic.Name == name {
			iw.ethGen++
			e := &simEth{iw: iw, iface: i, gen: iw.ethGen, rx: make(chan rxFrame, 64), closed: make(chan struct{})}
			iw.eth[i] = e
			iw.w.Env.probe("eth_interface_opened")
			return e, nil
		}
	}
	return nil, fmt.Errorf("simeth: no such interface %q", name)
}

// ---- world

type sentPDU struct {
	at    time.Duration // mock clock since start
	iface int
	gen   int
	typ   uint8
	hello *packet.P2PHello
	lsp   *packet.LSPDU
	csnp  *packet.CSNP
	psnp  *packet.PSNP
}

type isisWorld struct {
	w      *World
	cfg    *ISISCfg
	clk    *bbclock.Mock
	t0     time.Time
	srv    *isisserver.Server
	ds     *simDevUpdater
	eth    []*simEth
	ethGen int
	sent   []sentPDU
	undec  int
	linkUp []bool
	hook   func(kind string, i int, s *Step) // oracle callback after every isissim step
	pre    func(kind string, i int, s *Step) // oracle callback before every isissim step
}

func (iw *isisWorld) now() time.Duration { return iw.clk.Now().Sub(iw.t0) }

func (iw *isisWorld) recordSent(e *simEth, raw []byte) {
	// the real interface prepends the LLC header (DSAP, SSAP, control) and the decoder expects it
	pkt, err := packet.Decode(bytes.NewBuffer(append([]byte{0xfe, 0xfe, 0x03}, raw...)))
	if err != nil || pkt == nil || pkt.Header == nil {
		iw.undec++
		iw.w.Env.Violate("WIRE", "dut_isis_pdu_undecodable", "the DUT sent an IS-IS PDU that does not decode: %v (%x)", err, raw)
		return
	}
	s := sentPDU{at: iw.now(), iface: e.iface, gen: e.gen, typ: pkt.Header.PDUType}
	if debugWire {
		fmt.Fprintf(os.Stderr, "ISIS-TX t=%v if=%d type=%#x len=%d\n", s.at, e.iface, s.typ, len(raw))
	}
	switch b := pkt.Body.(type) {
	case *packet.P2PHello:
		s.hello = b
	case *packet.LSPDU:
		s.lsp = b
	case *packet.CSNP:
		s.csnp = b
	case *packet.PSNP:
		s.psnp = b
	}
	iw.sent = append(iw.sent, s)
}

func isisHeader(pduType uint8) packet.ISISHeader {
	li := uint8(0)
	switch pduType {
	case packet.P2P_HELLO:
		li = packet.P2PHelloMinLen
	case packet.L2_LS_PDU_TYPE:
		li = packet.LSPDUMinLen
	case packet.L2_CSNP_TYPE:
		li = packet.CSNPMinLen
	case packet.L2_PSNP_TYPE:
		li = packet.PSNPMinLen
	}
	return packet.ISISHeader{ProtoDiscriminator: 0x83, LengthIndicator: li, ProtocolIDExtension: 1, PDUType: pduType, Version: 1}
}

func isisFrame(pduType uint8, body packet.Serializable) []byte {
	hb := bytes.NewBuffer([]byte{0xfe, 0xfe, 0x03}) // LLC, as delivered by the raw socket
	h := isisHeader(pduType)
	h.Serialize(hb)
	bb := bytes.NewBuffer(nil)
	body.Serialize(bb)
	hb.Write(bb.Bytes())
	return hb.Bytes()
}

// inject delivers a frame of neighbour n to the DUT; false if the interface is not open.
func (iw *isisWorld) inject(n ISNbr, frame []byte) bool {
	e := iw.eth[n.Iface]
	if e == nil || e.isDown {
		iw.w.Env.probe("frame_lost_interface_down")
		return false
	}
	select {
	case e.rx <- rxFrame{src: nbrMAC(n.Sys), pkt: frame}:
	default:
		iw.w.Env.probe("frame_lost_rx_queue_full")
		return false
	}
	iw.w.Env.Sim.Settle()
	return true
}

func (iw *isisWorld) helloFrame(n ISNbr, hold uint16, adj string) []byte {
	ic := iw.cfg.Ifaces[n.Iface]
	h := &packet.P2PHello{CircuitType: 2, SystemID: sysID(n.Sys), HoldingTimer: hold, LocalCircuitID: 1}
	switch adj {
	case "none":
	case "down":
		h.TLVs = append(h.TLVs, packet.NewP2PAdjacencyStateTLV(packet.P2PAdjStateDown, n.Circuit))
	default:
		t := packet.NewP2PAdjacencyStateTLV(packet.P2PAdjStateInit, n.Circuit)
		t.TLVLength = packet.P2PAdjacencyStateTLVLenWithNeighbor
		t.NeighborSystemID = sysID(dutSys)
		t.NeighborExtendedLocalCircuitID = uint32(ic.Index)
		if adj == "other" {
			t.NeighborSystemID = sysID(0x77)
		}
		if adj == "wrongcircuit" {
			t.NeighborExtendedLocalCircuitID = uint32(ic.Index) + 1000
		}
		h.TLVs = append(h.TLVs, t)
	}
	h.TLVs = append(h.TLVs, packet.NewProtocolsSupportedTLV([]uint8{packet.NLPIDIPv4, packet.NLPIDIPv6}))
	h.TLVs = append(h.TLVs, packet.NewIPInterfaceAddressesTLV([]*bnet.Prefix{bnet.NewPfx(bnet.IPv4FromOctets(10, ic.Net, 0, 2+n.Sys%200), 24).Ptr()}))
	h.TLVs = append(h.TLVs, packet.NewAreaAddressesTLV([]types.AreaID{isisArea}))
	return isisFrame(packet.P2P_HELLO, h)
}

func (iw *isisWorld) lspFrame(l *ISLSP) []byte {
	p := &packet.LSPDU{RemainingLifetime: l.Life, LSPID: lspID(l.Sys, l.Frag), SequenceNumber: l.Seq, TypeBlock: 3,
		TLVs: []packet.TLV{packet.NewAreaAddressesTLV([]types.AreaID{isisArea}), packet.NewProtocolsSupportedTLV([]uint8{packet.NLPIDIPv4, packet.NLPIDIPv6})}}
	p.UpdateLength()
	p.SetChecksum()
	return isisFrame(packet.L2_LS_PDU_TYPE, p)
}

func isEntries(es []ISEntry) []*packet.LSPEntry {
	var out []*packet.LSPEntry
	for _, e := range es {
		out = append(out, &packet.LSPEntry{RemainingLifetime: e.Life, LSPID: lspID(e.Sys, e.Frag), SequenceNumber: e.Seq, LSPChecksum: 0x1234})
	}
	sort.Slice(out, func(i, j int) bool {
		a, b := out[i].LSPID, out[j].LSPID
		if c := bytes.Compare(a.SystemID[:], b.SystemID[:]); c != 0 {
			return c < 0
		}
		return a.LSPNumber < b.LSPNumber
	})
	return out
}

// advance moves the mock clock by d in steps of at most one second, letting the DUT's
// goroutines run to quiescence after each step.
func (iw *isisWorld) advance(d time.Duration) {
	for d > 0 {
		step := d
		if step > time.Second {
			step = time.Second
		}
		iw.clk.Add(step)
		iw.w.Env.Sim.Settle()
		if debugWire {
			fmt.Fprintf(os.Stderr, "ISIS-CLK t=%v\n", iw.now())
		}
		d -= step
	}
}

// link delivers a device update for interface i.
func (iw *isisWorld) link(i int, up bool) {
	ic := iw.cfg.Ifaces[i]
	st := uint8(device.IfOperDown)
	if up {
		st = device.IfOperUp
	}
	d := &simDevice{index: ic.Index, state: st, addrs: []*bnet.Prefix{bnet.NewPfx(bnet.IPv4FromOctets(10, ic.Net, 0, 1), 24).Ptr()}}
	iw.ds.known[ic.Name] = d
	iw.linkUp[i] = up
	for _, c := range iw.ds.clients[ic.Name] {
		c := c
		cp := *d
		t := iw.w.Go(fmt.Sprintf("DeviceUpdate(%s,up=%v)", ic.Name, up), func() {
			defer func() {
				if r := recover(); r != nil {
					iw.w.Env.Violate("C33", "panic_on_link_event", "DeviceUpdate(%s, up=%v) panicked: %v", ic.Name, up, r)
				}
			}()
			c.DeviceUpdate(&cp)
		})
		_ = t
	}
	if up {
		iw.w.Env.fault("link_up")
	} else {
		iw.w.Env.fault("link_down")
	}
}

// flap delivers "down" and "up" for interface i from one goroutine without a pause.
func (iw *isisWorld) flap(i int) {
	ic := iw.cfg.Ifaces[i]
	mk := func(st uint8) *simDevice {
		return &simDevice{index: ic.Index, state: st, addrs: []*bnet.Prefix{bnet.NewPfx(bnet.IPv4FromOctets(10, ic.Net, 0, 1), 24).Ptr()}}
	}
	down, up := mk(device.IfOperDown), mk(device.IfOperUp)
	iw.ds.known[ic.Name] = up
	iw.linkUp[i] = true
	for _, c := range iw.ds.clients[ic.Name] {
		c := c
		d1, d2 := *down, *up
		iw.w.Go(fmt.Sprintf("DeviceUpdate(%s,down+up)", ic.Name), func() {
			defer func() {
				if r := recover(); r != nil {
					iw.w.Env.Violate("C33", "panic_on_link_event", "DeviceUpdate(%s, down then up) panicked: %v", ic.Name, r)
				}
			}()
			c.DeviceUpdate(&d1)
			c.DeviceUpdate(&d2)
		})
	}
	iw.w.Env.fault("link_down")
	iw.w.Env.fault("link_up")
	iw.w.Env.fault("link_flap")
}

func newISISWorld(w *World) *isisWorld {
	cfg := w.Plan.ISIS
	iw := &isisWorld{w: w, cfg: cfg, clk: bbclock.NewMock(), eth: make([]*simEth, len(cfg.Ifaces)), linkUp: make([]bool, len(cfg.Ifaces))}
	iw.t0 = iw.clk.Now()
	isisserver.SetClock(iw.clk)
	iw.ds = &simDevUpdater{known: map[string]*simDevice{}, clients: map[string][]device.Client{}}
	for i, ic := range cfg.Ifaces {
		st := "up"
		if i < len(cfg.Initial) {
			st = cfg.Initial[i]
		}
		if st != "unknown" {
			s := uint8(device.IfOperDown)
			if st == "up" {
				s = device.IfOperUp
			}
			iw.ds.known[ic.Name] = &simDevice{index: ic.Index, state: s, addrs: []*bnet.Prefix{bnet.NewPfx(bnet.IPv4FromOctets(10, ic.Net, 0, 1), 24).Ptr()}}
			iw.linkUp[i] = st == "up"
		}
	}
	srv, err := isisserver.New([]*types.NET{{AreaID: isisArea, SystemID: sysID(dutSys)}}, iw.ds, 1200)
	if err != nil {
		panic(err)
	}
	simrt.LabelPointer(srv)
	srv.SetEthernetInterfaceFactory(&simEthFactory{iw: iw})
	srv.SetHostnameFunc(func() (string, error) { return "dut", nil })
	iw.srv = srv
	for _, k := range []string{"is_hello", "is_advance", "is_link", "is_lsp", "is_csnp", "is_psnp", "is_start", "is_addif", "is_run"} {
		k := k
		w.Data["exec:"+k] = func(w *World, i int, s *Step) { iw.exec(k, i, s) }
	}
	return iw
}

// addInterface configures interface i on the server (in a task: it may call into the device
// updater and start goroutines).
func (iw *isisWorld) addInterface(i int) {
	ic := iw.cfg.Ifaces[i]
	cfg := &isisserver.InterfaceConfig{Name: ic.Name, Passive: ic.Passive, PointToPoint: true,
		Level2: &isisserver.InterfaceLevelConfig{HelloInterval: ic.Hello, HoldingTimer: ic.Hold, Metric: ic.Metric, Passive: ic.Passive}}
	iw.w.Go("AddInterface("+ic.Name+")", func() {
		defer func() {
			if r := recover(); r != nil {
				iw.w.Env.Violate("C33", "panic_on_link_event", "AddInterface(%s) panicked: %v", ic.Name, r)
			}
		}()
		if err := iw.srv.AddInterface(cfg); err != nil {
			iw.w.Env.Violate("HARNESS", "isis_add_interface_failed", "%v", err)
		}
	})
}

func (iw *isisWorld) exec(kind string, i int, s *Step) {
	if iw.pre != nil {
		iw.pre(kind, i, s)
	}
	switch kind {
	case "is_addif":
		iw.addInterface(s.N)
	case "is_start":
		iw.w.Go("Server.Start()", func() {
			defer func() {
				if r := recover(); r != nil {
					iw.w.Env.Violate("C33", "panic_on_start", "Server.Start() panicked: %v\n%s", r, firstFrames(string(debug.Stack()), 14))
				}
			}()
			iw.srv.Start()
		})
	case "is_advance":
		iw.advance(us(s.GapUS))
	case "is_run":
		// time passes while every neighbour keeps its adjacency alive: a hello listing the DUT
		// every s.N seconds (holding time 3*s.N)
		left := us(s.GapUS)
		for left > 0 {
			d := time.Duration(s.N) * time.Second
			if d > left {
				d = left
			}
			iw.advance(d)
			left -= d
			for _, n := range iw.cfg.Nbrs {
				iw.inject(n, iw.helloFrame(n, uint16(3*s.N), "self"))
			}
		}
	case "is_link":
		// "flap": link down and up again delivered back to back by one caller, nothing else runs in
		// between (two plan steps so that every model sees down, then up; the first step does both)
		steps := iw.w.Plan.Steps
		switch {
		case s.Label == "flap" && !s.On && i+1 < len(steps) && steps[i+1].Kind == "is_link" && steps[i+1].Label == "flap2" && steps[i+1].N == s.N:
			iw.flap(s.N)
		case s.Label == "flap2" && s.On && i > 0 && steps[i-1].Kind == "is_link" && steps[i-1].Label == "flap" && steps[i-1].N == s.N:
			// done by the previous step
		default:
			iw.link(s.N, s.On)
		}
	case "is_hello":
		n := iw.cfg.Nbrs[s.Peer]
		iw.inject(n, iw.helloFrame(n, s.IS.Hold, s.IS.Adj))
	case "is_lsp":
		n := iw.cfg.Nbrs[s.Peer]
		iw.inject(n, iw.lspFrame(s.IS.LSP))
	case "is_csnp":
		n := iw.cfg.Nbrs[s.Peer]
		es := isEntries(s.IS.Entries)
		c := &packet.CSNP{SourceID: types.SourceID{SystemID: sysID(n.Sys)}, StartLSPID: packet.LSPID{}, EndLSPID: packet.LSPID{SystemID: types.SystemID{255, 255, 255, 255, 255, 255}, PseudonodeID: 255, LSPNumber: 255}}
		if !s.IS.Full {
			// one PDU of a multi-part CSNP: it describes the LSPs of originators RangeLo..RangeHi only
			c.StartLSPID = packet.LSPID{SystemID: sysID(s.IS.RangeLo)}
			c.EndLSPID = packet.LSPID{SystemID: sysID(s.IS.RangeHi), PseudonodeID: 255, LSPNumber: 255}
		}
		if len(es) > 0 {
			c.TLVs = []packet.TLV{packet.NewLSPEntriesTLV(es)}
		}
		iw.inject(n, isisFrame(packet.L2_CSNP_TYPE, c))
	case "is_psnp":
		n := iw.cfg.Nbrs[s.Peer]
		p := &packet.PSNP{SourceID: types.SourceID{SystemID: sysID(n.Sys)}, TLVs: []packet.TLV{packet.NewLSPEntriesTLV(isEntries(s.IS.Entries))}}
		iw.inject(n, isisFrame(packet.L2_PSNP_TYPE, p))
	}
	if iw.hook != nil {
		iw.hook(kind, i, s)
	}
}

// adjacency status of (interface name, neighbour system) as the DUT reports it
func (iw *isisWorld) dutAdj() map[string]uint8 {
	out := map[string]uint8{}
	for _, a := range iw.srv.GetAdjacencies() {
		out[fmt.Sprintf("%s/%s", a.InterfaceName, a.Address.String())] = a.Status
	}
	return out
}

func adjKey(ic ISIface, n ISNbr) string { return fmt.Sprintf("%s/%s", ic.Name, nbrMAC(n.Sys).String()) }

package bgp

import (
	"fmt"
	"sort"

	"github.com/bio-routing/bio-rd/route"
	"github.com/bio-routing/bio-rd/routingtable"
	"github.com/bio-routing/bio-rd/routingtable/adjRIBOut"
	"github.com/bio-routing/bio-rd/routingtable/filter"
	"github.com/bio-routing/bio-rd/routingtable/locRIB"
	"verif.local/simrt"
)

// C08 (tables): real Adj-RIB-Outs of several session kinds on one real Loc-RIB; route changes and
// the registration of an Adj-RIB-Out (a session coming up) are released together and interleaved
// at every lock boundary. At every quiescent point each registered Adj-RIB-Out equals the
// reference export of the Loc-RIB's current content for its session (same reference as in the
// live-session plans). In live sessions a registration never meets a route change half-way:
// the handshake takes several simulator events.

func genC08T(seed uint64) *Plan {
	r := propRand("C08T", seed)
	pl := &Plan{Prop: "C08", Engine: "ribsim", Seed: seed, DUT: DUTCfg{RouterID: 0x0a0000fe, LocalAS: 65000}}
	pl.Sim = SimCfg{ShuffleMaps: r.Chance(0.7), GateProb: pick(r, []float64{0.5, 1}), Sticky: pick(r, []float64{0, 0.5}), RandomHandoff: r.Chance(0.5), Priority: r.Chance(0.4)}
	// the sessions: eBGP, eBGP with add-path send, iBGP route-reflector client (add-path send or not)
	p0 := basicPeer(0, 65001)
	p1 := basicPeer(1, 65002)
	p1.AddPathTX, p1.PeerAddPath = uint(2+r.Intn(2)), 1
	p2 := basicPeer(2, 65000)
	p2.RRClient = true
	if r.Chance(0.5) {
		p2.AddPathTX, p2.PeerAddPath = 2, 1
	}
	pl.Peers = []PeerCfg{p0, p1, p2}
	nc := 4 + r.Intn(3)
	for i := 0; i < nc; i++ {
		c := genCand(r, false)
		c.Source = 0x0a00000a + uint32(i) // learned from elsewhere: split horizon stays out of the way
		c.EBGP = true
		c.OrigID, c.Cluster = 0, -1
		pl.Cands = append(pl.Cands, c)
	}
	pfxs := []Prefix{P4(192, 0, 2, 0, 24), P4(198, 51, 100, 0, 24)}
	reg := map[int]bool{}
	stored := map[string]bool{}
	mk := func() (Step, string) {
		switch weighted(r, map[string]int{"add": 10, "remove": 6, "register": 3}, []string{"add", "remove", "register"}) {
		case "register":
			k := r.Intn(3)
			if reg[k] {
				return Step{}, ""
			}
			reg[k] = true
			return Step{Kind: "c08_op", Label: "register", Peer: k}, fmt.Sprintf("client%d", k)
		case "remove":
			pfx, n := pick(r, pfxs), r.Intn(nc)
			key := fmt.Sprintf("%s/%d", pfx, n)
			if !stored[key] {
				return Step{}, ""
			}
			delete(stored, key)
			return Step{Kind: "c08_op", Label: "remove", Pfx: []Prefix{pfx}, N: n}, key
		}
		pfx, n := pick(r, pfxs), r.Intn(nc)
		key := fmt.Sprintf("%s/%d", pfx, n)
		if stored[key] {
			return Step{}, ""
		}
		stored[key] = true
		return Step{Kind: "c08_op", Label: "add", Pfx: []Prefix{pfx}, N: n}, key
	}
	n := 10 + r.Intn(30)
	for i := 0; i < n; i++ {
		var grp []Step
		used := map[string]bool{}
		for j := 0; j < 1+r.Intn(3); j++ {
			st, key := mk()
			if key == "" || used[key] {
				continue
			}
			used[key] = true
			grp = append(grp, st)
		}
		switch len(grp) {
		case 0:
		case 1:
			pl.Steps = append(pl.Steps, grp[0])
		default:
			pl.Steps = append(pl.Steps, Step{Kind: "par", Par: grp})
		}
	}
	return pl
}

type c08TOracle struct {
	rib  *locRIB.LocRIB
	outs []*adjRIBOut.AdjRIBOut
	reg  []bool
}

func (o *c08TOracle) Init(w *World) {
	o.rib = locRIB.New("c08")
	simrt.LabelPointer(o.rib)
	for i, pc := range w.Plan.Peers {
		sa := routingtable.SessionAttrs{RouterID: w.Plan.DUT.RouterID, PeerIP: pc.bnetAddr(), LocalIP: dutLocalIP.Dedup(), Type: route.BGPPathType,
			IBGP: pc.AS == w.Plan.DUT.LocalAS, LocalASN: w.Plan.DUT.LocalAS, PeerASN: pc.AS, RouteReflectorClient: pc.RRClient, ClusterID: w.Plan.DUT.RouterID,
			AddPathTX: pc.AddPathTX > 0}
		out := adjRIBOut.New(o.rib, sa, filter.NewAcceptAllFilterChain())
		simrt.LabelPointer(out)
		o.outs = append(o.outs, out)
		_ = i
	}
	o.reg = make([]bool, len(o.outs))
	w.Data["exec:c08_op"] = func(w *World, i int, s *Step) { o.apply(w, i, s) }
}

func (o *c08TOracle) apply(w *World, i int, s *Step) {
	cands := w.Plan.Cands
	switch s.Label {
	case "add":
		pfx := ToBnetPrefix(s.Pfx[0])
		w.Go("LocRIB.AddPath", func() { o.rib.AddPath(pfx, cands[s.N].build(s.N)) })
	case "remove":
		pfx := ToBnetPrefix(s.Pfx[0])
		w.Go("LocRIB.RemovePath", func() { o.rib.RemovePath(pfx, cands[s.N].build(s.N)) })
	case "register":
		pc := w.Plan.Peers[s.Peer]
		opts := routingtable.ClientOptions{BestOnly: true}
		if pc.AddPathTX > 0 {
			opts = routingtable.ClientOptions{MaxPaths: pc.AddPathTX}
		}
		out := o.outs[s.Peer]
		o.reg[s.Peer] = true
		w.Go(fmt.Sprintf("LocRIB.RegisterWithOptions(AdjRIBOut[%s])", pc.Name), func() { o.rib.RegisterWithOptions(out, opts) })
		w.Env.probe("adjribout_registered")
	}
	if w.Env.Sim.HoldSettle == 0 {
		w.Env.Sim.Settle()
		o.check(w, fmt.Sprintf("after step %d (%s)", i, s.Label))
	}
}

func (o *c08TOracle) check(w *World, when string) {
	if len(w.PendingTasks()) > 0 {
		return // wedged: reported by the executor
	}
	loc := DumpRoutes(o.rib.Dump())
	dut := w.Plan.DUT
	for k, out := range o.outs {
		if !o.reg[k] {
			continue
		}
		pc := w.Plan.Peers[k]
		exp := RefAdjRIBOut(dut, pc, loc)
		got := map[Prefix][]string{}
		for pfx, ps := range DumpRoutes(out.Dump()) {
			for _, c := range ps {
				wild := pc.AS == dut.LocalAS && pc.RRClient && (c.EBGP || c.Redist == route.StaticPathType)
				got[pfx] = append(got[pfx], normOut(c, wild).Key(false))
			}
			sort.Strings(got[pfx])
		}
		if d := diffPrefixSets(exp, got); d != "" {
			w.Env.Violate("C08", "adjribout_vs_locrib", "%s: Adj-RIB-Out of %s (tables driven directly): %s", when, pc.Name, d)
		}
	}
}

func (o *c08TOracle) AfterStep(w *World, i int, s *Step) {
	if s.Kind == "par" {
		o.check(w, fmt.Sprintf("after concurrent step %d", i))
	}
}

func (o *c08TOracle) Final(w *World) {
	w.Data["nontrivial"] = w.Env.Probes["adjribout_registered"] > 0 && w.Env.Sim.Stats().SchedAlternates > 0
}

func init() {
	c08b := bgpProps["C08"]
	bgpProps["C08"] = propDef{
		Setup: c08b.Setup, Twin: c08b.Twin, KeepStep: c08b.KeepStep,
		Gen: func(seed uint64) *Plan {
			if (seed>>1)%5 == 0 {
				return genC08T(seed)
			}
			return c08b.Gen(seed)
		},
		Oracles: func(p *Plan) []Oracle {
			if p.Engine == "ribsim" {
				return []Oracle{&c08TOracle{}}
			}
			return c08b.Oracles(p)
		},
	}
}

package bgp

import (
	"fmt"
	"regexp"
	"sort"
	"strings"
	"testing"
	"time"
)

// ---------------------------------------------------------------------------------------
// C12: replacing a policy converges to the new policy's result (metamorphic twin run).

// finalTables renders Loc-RIBs and every session's Adj-RIB-Out canonically (sets, no ids).
func finalTables(w *World) map[string][]string {
	out := map[string][]string{}
	obs := w.Observe()
	for fi, fam := range []string{"v4", "v6"} {
		var ls []string
		for pfx, ps := range obs.Loc[fi] {
			for _, c := range ps {
				ls = append(ls, fmt.Sprintf("%s %s", pfx, normLoc(c).Key(false)))
			}
		}
		sort.Strings(ls)
		out["locrib/"+fam] = ls
		for pi, p := range w.Peers {
			po := obs.Peers[pi]
			key := fmt.Sprintf("adjribout/%s/%s", p.Cfg.Name, fam)
			if !po.HasOut[fi] {
				out[key] = []string{"<no established session>"}
				continue
			}
			var os []string
			for pfx, ps := range po.Out[fi] {
				for _, c := range ps {
					os = append(os, fmt.Sprintf("%s %s", pfx, normOut(c, false).Key(false)))
				}
			}
			sort.Strings(os)
			out[key] = os
		}
	}
	return out
}

type captureOracle struct{ into *map[string][]string }

func (c *captureOracle) Init(w *World)                         {}
func (c *captureOracle) AfterStep(w *World, i int, s *Step)    {}
func (c *captureOracle) Final(w *World)                        { *c.into = finalTables(w) }

// twinPlanC12 is the same plan with every session configured with its final policies from
// the start and the replacement steps turned into waits (timing of all other steps kept).
func twinPlanC12(p *Plan) *Plan {
	q := clonePlan(p)
	for i := range q.Steps {
		s := &q.Steps[i]
		if s.Kind == "import" && s.Peer < len(q.Peers) {
			q.Peers[s.Peer].Import = s.Policy
		}
		if s.Kind == "export" && s.Peer < len(q.Peers) {
			q.Peers[s.Peer].Export = s.Policy
		}
	}
	for i := range q.Steps {
		if q.Steps[i].Kind == "import" || q.Steps[i].Kind == "export" {
			q.Steps[i] = Step{GapUS: q.Steps[i].GapUS, Kind: "wait"}
		}
	}
	q.Note = "twin: final policies from the start"
	return q
}

func genC12(seed uint64) *Plan {
	pr := DefaultProfile()
	pr.MinPeers, pr.MaxPeers = 2, 4
	pr.AddPathRXProb, pr.AddPathTXProb = 0, 0
	pr.ImportKinds = []string{"accept", "rejectsome", "rewrite", "reject"}
	pr.ExportKinds = []string{"accept", "rejectsome", "rewrite", "reject"}
	pr.W = map[string]int{"announce": 10, "withdraw": 2, "wait": 1}
	pr.MinSteps, pr.MaxSteps = 5, 16
	pr.FragmentProb = 0
	pr.BigGapProb = 0.02
	g := newGen("C12", seed, pr)
	if g.r.Chance(0.3) {
		// the DUT is the active side towards the first neighbour: one FSM serves all its sessions, so a
		// policy replaced while the session is down has to be remembered by that FSM
		pc := &g.plan.Peers[0]
		pc.Active, pc.DialTarget, pc.ReconnectUS = true, true, 100_000
	}
	g.connectAll()
	g.workload()
	defer func() {
		// the DUT dials the active neighbour by itself: its connect steps become waits
		for i := range g.plan.Steps {
			if s := &g.plan.Steps[i]; s.Kind == "connect" && g.plan.Peers[s.Peer].Active {
				s.Kind = "wait"
			}
		}
	}()
	// one to four replacements, some of them differing from the previous policy in exactly one detail
	r := g.r
	n := 1 + r.Intn(4)
	for i := 0; i < n; i++ {
		pi := r.Intn(len(g.plan.Peers))
		kind := pick(r, []string{"import", "export"})
		cur := g.plan.Peers[pi].Import
		if kind == "export" {
			cur = g.plan.Peers[pi].Export
		}
		for _, s := range g.plan.Steps {
			if s.Kind == kind && s.Peer == pi {
				cur = s.Policy
			}
		}
		var pol *PolicySpec
		if r.Chance(0.5) {
			pol = mutatePolicy(r, cur)
		}
		if pol == nil {
			pol = g.genPolicy(pick(r, []string{"accept", "rejectsome", "rewrite", "rewrite", "reject"}))
		}
		g.add(Step{GapUS: g.gap(), Kind: kind, Peer: pi, Policy: pol})
		if r.Chance(0.4) {
			g.stepAnnounce(r.Intn(len(g.plan.Peers)))
		}
	}
	if r.Chance(0.35) {
		// a session that is established after the replacement works with the replaced policy too
		pi := r.Intn(len(g.plan.Peers))
		g.add(Step{GapUS: g.gap(), Kind: "peer_notify", Peer: pi, Code: 6, Sub: 4})
		g.announced[pi] = map[viewKey]uint32{}
		g.lastAnn[pi] = map[Prefix]AttrSpec{}
		if r.Chance(0.5) {
			// ... also when the replacement happens while the session is down
			kind := pick(r, []string{"import", "export"})
			g.add(Step{GapUS: 20_000, Kind: kind, Peer: pi, Policy: g.genPolicy(pick(r, []string{"accept", "rejectsome", "rewrite", "rewrite"}))})
		}
		g.add(Step{GapUS: 300_000 + int64(r.Intn(1_000_000)), Kind: "connect", Peer: pi})
		g.add(Step{GapUS: 400_000, Kind: "checkpoint"})
		for k := 0; k < 1+r.Intn(3); k++ {
			g.stepAnnounce(pi)
		}
	}
	g.checkpoint()
	return g.plan
}

// mutatePolicy changes exactly one action value or one filter bound (or returns nil).
func mutatePolicy(r interface{ Intn(int) int }, p *PolicySpec) *PolicySpec {
	if p == nil || len(p.Terms) == 0 {
		return nil
	}
	q := &PolicySpec{Split: p.Split}
	for _, t := range p.Terms {
		nt := TermSpec{Actions: append([]ActionSpec(nil), t.Actions...)}
		if t.Match != nil {
			m := *t.Match
			nt.Match = &m
		}
		q.Terms = append(q.Terms, nt)
	}
	type site struct{ t, a int }
	var sites []site
	for ti, t := range q.Terms {
		for ai, a := range t.Actions {
			if a.Kind == "lp" || a.Kind == "med" || a.Kind == "nh" || a.Kind == "prepend" {
				sites = append(sites, site{ti, ai})
			}
		}
		if t.Match != nil {
			sites = append(sites, site{ti, -1})
		}
	}
	if len(sites) == 0 {
		return nil
	}
	s := sites[r.Intn(len(sites))]
	if s.a < 0 {
		m := q.Terms[s.t].Match
		switch m.Kind {
		case "exact":
			m.Kind = "orlonger"
		case "orlonger":
			m.Kind = "longer"
		case "longer":
			m.Kind = "exact"
		default:
			m.Max++
		}
		return q
	}
	a := &q.Terms[s.t].Actions[s.a]
	switch a.Kind {
	case "lp":
		a.V += 10
	case "med":
		a.V += 5
	case "nh":
		a.V ^= 1
	case "prepend":
		if r.Intn(2) == 0 {
			a.V++
		} else {
			a.N++
		}
	}
	return q
}

// twinC12 executes the twin plan and compares the final tables.
func twinC12(t *testing.T, plan *Plan, res *RunResult) {
	if res.Wedged || res.Captured == nil {
		return
	}
	var twin map[string][]string
	tp := twinPlanC12(plan)
	tres := RunPlan(t, tp, RunOpts{Oracles: func(p *Plan) []Oracle { return []Oracle{&captureOracle{into: &twin}} }})
	if tres.Panic != "" || tres.Wedged || twin == nil {
		res.Inconclusive++
		return
	}
	var keys []string
	for k := range res.Captured {
		keys = append(keys, k)
	}
	sort.Strings(keys)
	for _, k := range keys {
		onlyA, onlyB := DiffLines(res.Captured[k], twin[k])
		if len(onlyA)+len(onlyB) > 0 {
			res.Violations = append(res.Violations, Violation{Prop: "C12", Assertion: "replaced_vs_fresh_" + tableKind(k),
				Detail: fmt.Sprintf("%s differs between (policies replaced at run time) and (final policies from the start): only after replacement %v ; only when fresh %v", k, onlyA, onlyB),
				Step:   len(plan.Steps), SimTimeNS: res.SimTimeNS})
		}
	}
}

func tableKind(k string) string {
	if len(k) >= 6 && k[:6] == "locrib" {
		return "locrib"
	}
	return "adjribout"
}

// ---------------------------------------------------------------------------------------
// C13: tables are isolated - deep snapshots around export-side operations.

type isolationOracle struct {
	before map[string][]string
	armed  string // description of the operation being bracketed
	skip   map[string]bool
	// route-change bracket: the next step is an UPDATE of rcPeer (source address rcSrc) about rcPfx
	rcPeer, rcSrc, rcWhat string
	rcPfx                 map[string]bool
	rcAt                  time.Duration
}

// snapshotAll renders every table deeply (all attributes, ids, order).
func snapshotAll(w *World) map[string][]string {
	out := map[string][]string{}
	obs := w.Observe()
	for fi, fam := range []string{"v4", "v6"} {
		out["locrib/"+fam] = obs.Loc[fi].Lines(true, true)
		for pi, p := range w.Peers {
			po := obs.Peers[pi]
			if po.HasIn[fi] {
				out[fmt.Sprintf("adjribin/%s/%s", p.Cfg.Name, fam)] = po.In[fi].Lines(true, true)
			}
			if po.HasOut[fi] {
				out[fmt.Sprintf("adjribout/%s/%s", p.Cfg.Name, fam)] = po.Out[fi].Lines(true, true)
			}
		}
	}
	return out
}

func (o *isolationOracle) Init(w *World) {}

func (o *isolationOracle) compare(w *World, after map[string][]string) {
	var keys []string
	for k := range o.before {
		keys = append(keys, k)
	}
	sort.Strings(keys)
	for _, k := range keys {
		if o.skip[k] {
			continue
		}
		a, ok := after[k]
		if !ok {
			continue // table went away (session ended): not an attribute change
		}
		onlyA, onlyB := DiffLines(o.before[k], a)
		if len(onlyA)+len(onlyB) > 0 {
			w.Env.Violate("C13", "table_changed_by_export_side_operation", "%s changed %s: before %v ; after %v", o.armed, k, onlyA, onlyB)
		}
	}
}

// compareRouteChange: an UPDATE from neighbour src about the prefixes pfxs may change that
// neighbour's Adj-RIB-In, and for those prefixes the Loc-RIB paths of that source and every
// Adj-RIB-Out. Everything else - other prefixes, and the paths other sources contributed for the
// same prefixes - must come out of the export machinery exactly as it went in.
func (o *isolationOracle) compareRouteChange(w *World, after map[string][]string) {
	touched := func(line string) (pfx string, src string) {
		f := strings.Fields(line)
		if len(f) == 0 {
			return "", ""
		}
		for _, x := range f {
			if v, ok := strings.CutPrefix(x, "src="); ok {
				src = v
			}
		}
		return f[0], src
	}
	var keys []string
	for k := range o.before {
		keys = append(keys, k)
	}
	sort.Strings(keys)
	for _, k := range keys {
		a, ok := after[k]
		if !ok || k == "adjribin/"+o.rcPeer+"/v4" || k == "adjribin/"+o.rcPeer+"/v6" {
			continue
		}
		keep := func(lines []string) []string {
			var out []string
			for _, l := range lines {
				pfx, src := touched(l)
				if o.rcPfx[pfx] {
					// the changed prefix: only Loc-RIB paths of other sources are out of bounds
					if !strings.HasPrefix(k, "locrib/") || src == o.rcSrc || src == "" {
						continue
					}
				}
				// (the position of a path among the paths of its prefix legitimately shifts)
				out = append(out, rankRe.ReplaceAllString(l, " "))
			}
			return out
		}
		onlyA, onlyB := DiffLines(keep(o.before[k]), keep(a))
		if len(onlyA)+len(onlyB) > 0 {
			w.Env.Violate("C13", "table_changed_by_unrelated_route_change", "%s changed %s beyond the announced prefixes / its own paths: before %v ; after %v", o.rcWhat, k, onlyA, onlyB)
		}
	}
}

// BeforeStep (called at quiescence right before the step runs) takes the "before" snapshot of a
// route change; only when nothing else is in flight (the previous steps were given time to settle).
func (o *isolationOracle) BeforeStep(w *World, i int, s *Step) {
	if o.rcPeer != "" {
		// the bracketed UPDATE was sent by the previous step: judge it if it had time to arrive
		arrived := w.Env.Sim.Now() > o.rcAt
		for _, q := range w.Peers {
			if q.conn != nil && q.conn.pendingPeerTx > 0 {
				arrived = false
			}
		}
		if arrived {
			o.compareRouteChange(w, snapshotAll(w))
		} else {
			w.Env.probe("route_change_bracket_dropped_too_early")
		}
	}
	o.rcPeer = ""
	if (s.Kind != "announce" && s.Kind != "withdraw") || s.Peer >= len(w.Peers) || o.armed != "" || len(s.Chunks) > 0 || len(s.Wd) > 0 {
		return
	}
	for _, q := range w.Peers {
		if q.conn != nil && q.conn.pendingPeerTx > 0 {
			return // an earlier UPDATE (or a fragment of it) is still on its way
		}
	}
	p := w.Peers[s.Peer]
	if !p.Established() {
		return
	}
	o.before = snapshotAll(w)
	o.rcPeer, o.rcSrc = p.Cfg.Name, p.Cfg.addrString()
	o.rcPfx = map[string]bool{}
	for _, pf := range s.Pfx {
		o.rcPfx[pf.String()] = true
	}
	o.rcWhat = fmt.Sprintf("%s of %v by %s (step %d)", s.Kind, s.Pfx, p.Cfg.Name, i)
	o.rcAt = w.Env.Sim.Now()
	w.Env.probe("route_change_bracketed")
}

var rankRe = regexp.MustCompile(` \[\d+\] `)

func (o *isolationOracle) AfterStep(w *World, i int, s *Step) {
	// "bracket" steps carry the operation; the snapshot before is taken by the pre-hook
	if o.armed != "" && (s.Kind == "checkpoint" || s.Kind == "export") {
		o.compare(w, snapshotAll(w))
		o.armed = ""
	}
	// arm for the next step if it is an export-side operation
	if i+1 < len(w.Plan.Steps) {
		n := w.Plan.Steps[i+1]
		switch n.Kind {
		case "export":
			if n.Peer < len(w.Peers) {
				o.before = snapshotAll(w)
				name := w.Peers[n.Peer].Cfg.Name
				o.armed = fmt.Sprintf("export policy replacement on %s (step %d)", name, i+1)
				o.skip = map[string]bool{"adjribout/" + name + "/v4": true, "adjribout/" + name + "/v6": true}
			}
		case "connect":
			// establishment of a session: judged at the following checkpoint, only if that is the next step after it
			if i+2 < len(w.Plan.Steps) && w.Plan.Steps[i+2].Kind == "checkpoint" && n.Label == "receive_only" && n.Peer < len(w.Peers) {
				o.before = snapshotAll(w)
				name := w.Peers[n.Peer].Cfg.Name
				o.armed = fmt.Sprintf("establishment of receive-only session %s (step %d)", name, i+1)
				o.skip = map[string]bool{"adjribout/" + name + "/v4": true, "adjribout/" + name + "/v6": true,
					"adjribin/" + name + "/v4": true, "adjribin/" + name + "/v6": true}
			}
		}
	}
}

func (o *isolationOracle) Final(w *World) {}

func genC13(seed uint64) *Plan {
	pr := DefaultProfile()
	pr.MinPeers, pr.MaxPeers = 3, 5
	pr.ExportKinds = []string{"accept", "rewrite", "rewrite"}
	pr.ImportKinds = []string{"accept", "rewrite"}
	pr.AddPathTXProb = 0.3
	pr.RoleProb = 0.3
	pr.W = map[string]int{"announce": 10, "withdraw": 2, "wait": 1, "static_add": 1}
	pr.MinSteps, pr.MaxSteps = 6, 16
	g := newGen("C13", seed, pr)
	r := g.r
	// the last peer connects late (receive-only: it never announces)
	late := len(g.plan.Peers) - 1
	for i := range g.plan.Peers {
		if i == late {
			continue
		}
		g.add(Step{GapUS: int64(500 + r.Intn(3000)), Kind: "connect", Peer: i})
		g.connected[i] = true
	}
	g.add(Step{GapUS: 300_000, Kind: "checkpoint"})
	g.prof.W["announce"] = 10
	saved := g.plan.Peers
	g.plan.Peers = g.plan.Peers[:late] // workload only over the early peers
	g.announced = g.announced[:late]
	g.workload()
	g.plan.Peers = saved
	g.checkpoint()
	// export-side operations, each bracketed by snapshots
	n := 2 + r.Intn(4)
	lateDone := false
	for i := 0; i < n; i++ {
		switch {
		case !lateDone && r.Chance(0.4):
			g.add(Step{GapUS: 50_000, Kind: "connect", Peer: late, Label: "receive_only"})
			g.add(Step{GapUS: 600_000 + 4*g.plan.Sim.AggrUS, Kind: "checkpoint"})
			lateDone = true
		default:
			pi := r.Intn(len(g.plan.Peers))
			g.add(Step{GapUS: 100_000 + g.gap(), Kind: "export", Peer: pi, Policy: g.genPolicy(pick(r, []string{"accept", "rewrite", "rewrite", "rejectsome"}))})
			g.checkpoint()
		}
	}
	return g.plan
}

func init() {
	bgpProps["C12"] = propDef{Gen: genC12,
		Oracles: func(p *Plan) []Oracle { return []Oracle{&PipelineOracle{Props: map[string]bool{"C12": true}}, &c12Capture{}} },
		Twin:    twinC12}
	bgpProps["C13"] = propDef{Gen: genC13, Oracles: func(p *Plan) []Oracle { return []Oracle{&isolationOracle{}} }}
}

// c12Capture stores the final tables of the primary run in the result (through World.Data).
type c12Capture struct{}

func (c *c12Capture) Init(w *World)                      {}
func (c *c12Capture) AfterStep(w *World, i int, s *Step) {}
func (c *c12Capture) Final(w *World)                     { w.Data["captured"] = finalTables(w) }

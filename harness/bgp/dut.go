package bgp

import (
	"fmt"
	"net"
	"strings"
	"time"

	bnet "github.com/bio-routing/bio-rd/net"
	"github.com/bio-routing/bio-rd/protocols/bgp/server"
	"github.com/bio-routing/bio-rd/route"
	"github.com/bio-routing/bio-rd/routingtable"
	"github.com/bio-routing/bio-rd/routingtable/locRIB"
	"github.com/bio-routing/bio-rd/routingtable/vrf"
	"verif.local/simrt"
)

// DUTCfg configures the device under test.
type DUTCfg struct {
	RouterID  uint32 `json:"router_id"`
	LocalAS   uint32 `json:"local_as"`
	ClusterID uint32 `json:"cluster_id,omitempty"`
}

// DUT is a real bio-rd BGP server inside the simulation.
type DUT struct {
	env   *Env
	Cfg   DUTCfg
	Srv   server.BGPServer
	VRF   *vrf.VRF
	LM    *simLM
	Peers []*Peer
	RIB4  *locRIB.LocRIB
	RIB6  *locRIB.LocRIB
	wedgeReported bool
}

var dutLocalIP = bnet.IPv4FromOctets(10, 0, 0, 254)

// NewDUT starts a BGP server with a simulated listener.
func NewDUT(env *Env, cfg DUTCfg) *DUT {
	v := vrf.NewUntrackedVRF("main", 0)
	r4, _ := v.CreateIPv4UnicastLocRIB("inet.0")
	r6, _ := v.CreateIPv6UnicastLocRIB("inet6.0")
	simrt.LabelPointer(v)
	simrt.LabelPointer(r4)
	simrt.LabelPointer(r6)
	d := &DUT{env: env, Cfg: cfg, VRF: v, LM: newSimLM(), RIB4: r4, RIB6: r6}
	d.Srv = server.NewBGPServer(server.BGPServerConfig{RouterID: cfg.RouterID, DefaultVRF: v})
	d.Srv.SetListenerManager(d.LM)
	// outgoing connections of active peers end at the scripted neighbour marked as dial target
	server.VerifDialHook = func(l, r *net.TCPAddr) (net.Conn, error) {
		for _, p := range d.Peers {
			if p.Cfg.DialTarget && p.TCPAddr(0).IP.Equal(r.IP) {
				env.probe("dut_dialled_out")
				if p.RefuseDial {
					return nil, fmt.Errorf("simnet: connection refused")
				}
				return p.acceptFromDUT(), nil
			}
		}
		return nil, fmt.Errorf("simnet: no route to host %v", r)
	}
	d.Srv.Start()
	env.Sim.Settle()
	return d
}

func (c PeerCfg) bnetAddr() *bnet.IP {
	return bnet.IPv4FromOctets(c.Addr[0], c.Addr[1], c.Addr[2], c.Addr[3]).Dedup()
}

// PeerConfig builds the bio-rd session configuration.
func (d *DUT) PeerConfig(c PeerCfg) server.PeerConfig {
	pc := server.PeerConfig{
		AdminEnabled:            true,
		ReconnectInterval:       time.Duration(c.ReconnectUS) * time.Microsecond,
		KeepAlive:               time.Duration(c.DUTHold) * time.Second / 3,
		HoldTime:                time.Duration(c.DUTHold) * time.Second,
		LocalAddress:            dutLocalIP.Dedup(),
		PeerAddress:             c.bnetAddr(),
		LocalAS:                 d.Cfg.LocalAS,
		PeerAS:                  c.AS,
		Passive:                 !c.Active,
		RouterID:                d.Cfg.RouterID,
		RouteServerClient:       c.RSClient,
		RouteReflectorClient:    c.RRClient,
		RouteReflectorClusterID: d.Cfg.ClusterID,
		AdvertiseIPv4MultiProtocol: c.DUTAdvMPv4,
		PeerRole:                c.DUTRole,
		PeerRoleStrictMode:      c.Strict,
		VRF:                     d.VRF,
	}
	if c.LocalAS != 0 {
		pc.LocalAS = c.LocalAS
	}
	opts := routingtable.ClientOptions{BestOnly: true}
	if c.AddPathTX > 0 {
		opts = routingtable.ClientOptions{MaxPaths: c.AddPathTX}
	}
	if c.IPv4 {
		pc.IPv4 = &server.AddressFamilyConfig{ImportFilterChain: c.Import.Chain(), ExportFilterChain: c.Export.Chain(),
			AddPathSend: opts, AddPathRecv: c.AddPathRX}
	}
	if c.IPv6 {
		pc.IPv6 = &server.AddressFamilyConfig{ImportFilterChain: c.Import.Chain(), ExportFilterChain: c.Export.Chain(),
			AddPathSend: opts, AddPathRecv: c.AddPathRX}
	}
	return pc
}

// AddPeer configures a neighbour on the DUT and creates its scripted peer.
func (d *DUT) AddPeer(c PeerCfg) (*Peer, error) {
	if !c.Shadow {
		if err := d.Srv.AddPeer(d.PeerConfig(c)); err != nil {
			return nil, err
		}
	}
	p := &Peer{env: d.env, dut: d, Cfg: c, Idx: len(d.Peers), AutoOpen: !c.ManualOpen}
	d.Peers = append(d.Peers, p)
	d.env.Sim.Settle()
	return p, nil
}

// FSMs returns the accessor view of a peer's FSMs.
func (d *DUT) FSMs(p *Peer) []server.VerifFSM {
	fs := server.VerifPeerFSMs(d.Srv, d.VRF, p.Cfg.bnetAddr())
	if len(fs) == 1 && fs[0].State == server.VerifFSMListLocked {
		// a goroutine of the DUT sits on the peer's FSM list lock while nothing can run any more:
		// the peer is wedged (session control deadlock); reported for the property whose workload
		// produced it, and once per run
		if !d.wedgeReported {
			d.wedgeReported = true
			var sb strings.Builder
			for _, b := range d.env.Sim.BlockedOnLocks() {
				fmt.Fprintf(&sb, "-- goroutine %d waits for a lock held by %v at:\n%s", b.G, b.Owners, indent(firstFrames(b.Stack, 8)))
			}
			d.env.Violate(d.env.PlanProp, "peer_wedged_fsm_list_locked", "peer %s: the lock of the peer's FSM list is held at quiescence (its holder is blocked for ever; every later connection, policy change or metrics call for this peer blocks too)\n%s", p.Cfg.Name, sb.String())
		}
		return nil
	}
	return fs
}

// EstablishedFSM returns the (first) Established FSM of a peer, if any, and how many there are.
func (d *DUT) EstablishedFSM(p *Peer) (*server.VerifFSM, int) {
	var res *server.VerifFSM
	n := 0
	fs := d.FSMs(p)
	for i := range fs {
		if fs[i].State == "established" {
			// with several Established FSMs (C24's subject) prefer the one on the peer's current connection
			if res == nil || (p.conn != nil && fs[i].Con == p.conn) {
				res = &fs[i]
			}
			n++
		}
	}
	return res, n
}

func famOf(f *server.VerifFSM, v6 bool) *server.VerifFamily {
	if f == nil {
		return nil
	}
	want := uint16(1)
	if v6 {
		want = 2
	}
	for i := range f.Families {
		if f.Families[i].AFI == want {
			return &f.Families[i]
		}
	}
	return nil
}

// RIB returns the Loc-RIB of a family.
func (d *DUT) RIB(v6 bool) *locRIB.LocRIB {
	if v6 {
		return d.RIB6
	}
	return d.RIB4
}

// LocRIBDump dumps a Loc-RIB canonically.
func (d *DUT) LocRIBDump(v6 bool) TableDump { return DumpRoutes(d.RIB(v6).Dump()) }

// AddStatic installs a static route into the Loc-RIB (to be redistributed into BGP).
func (d *DUT) AddStatic(pfx Prefix, nh uint32) {
	ip := bnet.IPv4(nh).Dedup()
	d.RIB(pfx.V6).AddPath(ToBnetPrefix(pfx), &route.Path{Type: route.StaticPathType, StaticPath: &route.StaticPath{NextHop: ip}})
}

// DelStatic removes a static route.
func (d *DUT) DelStatic(pfx Prefix, nh uint32) {
	ip := bnet.IPv4(nh).Dedup()
	d.RIB(pfx.V6).RemovePath(ToBnetPrefix(pfx), &route.Path{Type: route.StaticPathType, StaticPath: &route.StaticPath{NextHop: ip}})
}

func (d *DUT) String() string { return fmt.Sprintf("DUT(as=%d id=%d)", d.Cfg.LocalAS, d.Cfg.RouterID) }

package bgp

import (
	"fmt"
	"sort"
	"strings"
	"time"

	"github.com/bio-routing/bio-rd/protocols/isis/packet"
	"verif.local/simrt"
)

// ---------------------------------------------------------------------------------------
// plan generation shared by the IS-IS properties

func isisBasePlan(prop string, seed uint64, r *simrt.Rand, nActive int, passive bool, twoNbrs bool) *Plan {
	pl := &Plan{Prop: prop, Engine: "isissim", Seed: seed, DUT: DUTCfg{RouterID: 1, LocalAS: 65000}}
	pl.Sim = SimCfg{ShuffleMaps: r.Chance(0.6), GateProb: []float64{0, 0, 0.3, 0.7}[r.Intn(4)], Sticky: []float64{0, 0.5}[r.Intn(2)], RandomHandoff: r.Chance(0.5)}
	cfg := &ISISCfg{}
	for i := 0; i < nActive; i++ {
		hello := []uint16{1, 3, 10}[r.Intn(3)]
		cfg.Ifaces = append(cfg.Ifaces, ISIface{Name: fmt.Sprintf("eth%d", i), Hello: hello, Hold: hello * 3, Metric: 10, Index: uint64(11 + i), Net: uint8(1 + i)})
		cfg.Nbrs = append(cfg.Nbrs, ISNbr{Iface: i, Sys: uint8(0x11 + i), Circuit: uint32(100 + i)})
		if twoNbrs && i == 0 {
			cfg.Nbrs = append(cfg.Nbrs, ISNbr{Iface: i, Sys: 0x21, Circuit: 200})
		}
	}
	if passive {
		i := len(cfg.Ifaces)
		cfg.Ifaces = append(cfg.Ifaces, ISIface{Name: "lo1", Passive: true, Hello: 10, Hold: 30, Metric: 1, Index: uint64(11 + i), Net: uint8(1 + i)})
	}
	for range cfg.Ifaces {
		cfg.Initial = append(cfg.Initial, "up")
	}
	pl.ISIS = cfg
	return pl
}

func isHello(nbr int, hold uint16, adj string) Step {
	return Step{Kind: "is_hello", Peer: nbr, IS: &ISStep{Hold: hold, Adj: adj}}
}
func isAdvance(d time.Duration) Step { return Step{Kind: "is_advance", GapUS: int64(d / time.Microsecond)} }

// ---------------------------------------------------------------------------------------
// C33: IS-IS survives any sequence of interface state changes

func genC33(seed uint64) *Plan {
	r := propRand("C33", seed)
	pl := isisBasePlan("C33", seed, r, 1+b2i(r.Chance(0.3)), r.Chance(0.6), false)
	cfg := pl.ISIS
	for i := range cfg.Initial {
		cfg.Initial[i] = pick(r, []string{"up", "up", "down", "unknown"})
	}
	startFirst := r.Chance(0.3)
	if startFirst {
		pl.Steps = append(pl.Steps, Step{Kind: "is_start"})
	}
	for i := range cfg.Ifaces {
		pl.Steps = append(pl.Steps, Step{Kind: "is_addif", N: i})
	}
	if !startFirst {
		pl.Steps = append(pl.Steps, Step{Kind: "is_start"})
	}
	n := 1 + r.Intn(6)
	for k := 0; k < n; k++ {
		i := r.Intn(len(cfg.Ifaces))
		if r.Chance(0.25) {
			pl.Steps = append(pl.Steps, Step{Kind: "is_link", N: i, On: false, Label: "flap"}, Step{Kind: "is_link", N: i, On: true, Label: "flap2"})
		} else {
			pl.Steps = append(pl.Steps, Step{Kind: "is_link", N: i, On: r.Chance(0.5)})
		}
		if r.Chance(0.7) {
			pl.Steps = append(pl.Steps, isAdvance(pick(r, []time.Duration{200 * time.Millisecond, time.Second, 4 * time.Second, 15 * time.Second})))
		}
		if r.Chance(0.4) {
			// a neighbour talks (if the interface is up it becomes known, so that a later link-down has adjacencies to take down)
			nb := r.Intn(len(cfg.Nbrs))
			for q := 0; q < 1+r.Intn(2); q++ {
				pl.Steps = append(pl.Steps, isHello(nb, cfg.Ifaces[cfg.Nbrs[nb].Iface].Hold, "self"))
				pl.Steps = append(pl.Steps, isAdvance(500*time.Millisecond))
			}
		}
	}
	// finally every active interface comes (or stays) up and a neighbour performs the handshake
	for nb, nc := range cfg.Nbrs {
		ic := cfg.Ifaces[nc.Iface]
		pl.Steps = append(pl.Steps, Step{Kind: "is_link", N: nc.Iface, On: true, Label: "final"})
		pl.Steps = append(pl.Steps, isAdvance(time.Duration(ic.Hello)*3*time.Second+time.Second))
		for q := 0; q < 3; q++ {
			pl.Steps = append(pl.Steps, isHello(nb, ic.Hold, "self"))
			pl.Steps = append(pl.Steps, isAdvance(time.Second))
		}
		pl.Steps = append(pl.Steps, Step{Kind: "checkpoint", Label: "final", N: nb})
	}
	return pl
}

type c33Oracle struct {
	iw       *isisWorld
	lastUpAt map[int]time.Duration
	linkSeen map[int]bool
}

func (o *c33Oracle) Init(w *World) {
	o.iw = newISISWorld(w)
	o.lastUpAt = map[int]time.Duration{}
	o.linkSeen = map[int]bool{}
	o.iw.hook = func(kind string, i int, s *Step) {
		if kind == "is_link" {
			if s.On && !o.linkSeen[s.N] {
				o.lastUpAt[s.N] = o.iw.now()
			}
			o.linkSeen[s.N] = s.On
		}
		o.serverAlive(i)
	}
	for i, st := range w.Plan.ISIS.Initial {
		o.linkSeen[i] = st == "up"
	}
}

// serverAlive: the API of the server still answers (in a task, a panic is a finding, not a crash of the run).
func (o *c33Oracle) serverAlive(step int) {
	w := o.iw.w
	w.Go("GetAdjacencies/GetLSDB", func() {
		defer func() {
			if r := recover(); r != nil {
				w.Env.Violate("C33", "panic_in_server_api", "after step %d the server's API panicked: %v", step, r)
			}
		}()
		o.iw.srv.GetAdjacencies()
		o.iw.srv.GetLSDB()
		o.iw.srv.GetInterfaceNames()
	})
	if len(w.PendingTasks()) > 0 {
		o.iw.advance(5 * time.Second)
		if p := w.PendingTasks(); len(p) > 0 {
			var names []string
			for _, t := range p {
				names = append(names, t.Name)
			}
			w.Env.Violate("C33", "link_event_never_returns", "after step %d and 5 more seconds these operations have not returned: %s", step, strings.Join(names, ", "))
		}
	}
}

func (o *c33Oracle) AfterStep(w *World, i int, s *Step) {
	if s.Kind != "checkpoint" || s.Label != "final" || len(w.PendingTasks()) > 0 {
		return
	}
	nc := w.Plan.ISIS.Nbrs[s.N]
	ic := w.Plan.ISIS.Ifaces[nc.Iface]
	// hellos after the interface came (back) up
	hellos := 0
	for _, p := range o.iw.sent {
		if p.iface == nc.Iface && p.hello != nil && p.at > o.lastUpAt[nc.Iface] {
			hellos++
		}
	}
	if hellos == 0 {
		total := 0
		for _, p := range o.iw.sent {
			if p.iface == nc.Iface && p.hello != nil {
				total++
			}
		}
		w.Env.Violate("C33", "no_hello_after_link_up", "interface %s is up since t=%v (now %v, hello interval %ds) but the DUT sent no hello on it since then (hellos before: %d, interface opened %d times, initial device state %q)", ic.Name, o.lastUpAt[nc.Iface], o.iw.now(), ic.Hello, total, o.iw.ethGen, w.Plan.ISIS.Initial[nc.Iface])
		return
	}
	if st, ok := o.iw.dutAdj()[adjKey(ic, nc)]; !ok || st != packet.P2PAdjStateUp {
		w.Env.Violate("C33", "no_adjacency_after_link_up", "after the link of %s came up and the neighbour sent three hellos listing the DUT, the adjacency is not up (present=%v state=%d)", ic.Name, ok, st)
	}
}

func (o *c33Oracle) Final(w *World) {
	w.Data["nontrivial"] = w.Env.Faults["link_up"]+w.Env.Faults["link_down"] > 0
	w.Data["shape"] = isisShape(o.iw)
}

func isisShape(iw *isisWorld) string {
	iw.w.Data["sim_time_ns"] = int64(iw.now())
	var sb strings.Builder
	for _, s := range iw.w.Plan.Steps {
		switch s.Kind {
		case "is_link":
			fmt.Fprintf(&sb, "L%d%v", s.N, s.On)
		case "is_hello":
			fmt.Fprintf(&sb, "H%d%s", s.Peer, s.IS.Adj)
		case "is_lsp":
			fmt.Fprintf(&sb, "P%d.%d.%d", s.Peer, s.IS.LSP.Sys, s.IS.LSP.Seq)
		case "is_csnp", "is_psnp":
			fmt.Fprintf(&sb, "%s%d.%d", s.Kind[3:4], s.Peer, len(s.IS.Entries))
		case "is_advance":
			fmt.Fprintf(&sb, "A%d", s.GapUS/1000000)
		}
	}
	fmt.Fprintf(&sb, "|%v|%d", iw.w.Plan.ISIS.Initial, len(iw.sent)/8)
	return sb.String()
}

// ---------------------------------------------------------------------------------------
// C31: point-to-point adjacencies follow the three-way handshake and the hold timer

func genC31(seed uint64) *Plan {
	r := propRand("C31", seed)
	pl := isisBasePlan("C31", seed, r, 1+b2i(r.Chance(0.3)), r.Chance(0.2), r.Chance(0.3))
	cfg := pl.ISIS
	for i := range cfg.Ifaces {
		pl.Steps = append(pl.Steps, Step{Kind: "is_addif", N: i})
	}
	pl.Steps = append(pl.Steps, Step{Kind: "is_start"})
	holds := []uint16{3, 9, 30}
	n := 8 + r.Intn(30)
	for k := 0; k < n; k++ {
		switch weighted(r, map[string]int{"hello": 10, "advance": 8, "link": 1}, []string{"hello", "advance", "link"}) {
		case "hello":
			nb := r.Intn(len(cfg.Nbrs))
			adj := weighted(r, map[string]int{"self": 12, "down": 2, "other": 2, "wrongcircuit": 2, "none": 1}, []string{"self", "down", "other", "wrongcircuit", "none"})
			pl.Steps = append(pl.Steps, isHello(nb, pick(r, holds), adj))
		case "advance":
			pl.Steps = append(pl.Steps, isAdvance(pick(r, []time.Duration{200 * time.Millisecond, time.Second, 2500 * time.Millisecond, 4 * time.Second, 10 * time.Second, 31 * time.Second, 125 * time.Second})))
		case "link":
			pl.Steps = append(pl.Steps, Step{Kind: "is_link", N: r.Intn(len(cfg.Ifaces)), On: r.Chance(0.5)})
		}
	}
	if r.Chance(0.5) {
		// all neighbours fall silent: whatever state they are in, they have to go away
		pl.Steps = append(pl.Steps, isAdvance(160*time.Second), isAdvance(3*time.Second))
	}
	return pl
}

type adjModel struct {
	exists    bool
	state     uint8 // packet.P2PAdjState*
	lastHello time.Duration
	hold      time.Duration
	// state change time known to lie within [chgMin, chgMax]
	chgMin, chgMax time.Duration
	everHello      bool
}

const adjTick = 1500 * time.Millisecond // adjacency checker period plus processing slack

type c31Oracle struct {
	iw      *isisWorld
	m       []adjModel
	ownSeq  uint32
	lspSeen bool
	prevUp  []bool
}

func (o *c31Oracle) Init(w *World) {
	o.iw = newISISWorld(w)
	o.m = make([]adjModel, len(w.Plan.ISIS.Nbrs))
	for _, st := range w.Plan.ISIS.Initial {
		o.prevUp = append(o.prevUp, st == "up")
	}
	o.iw.hook = func(kind string, i int, s *Step) { o.after(kind, i, s) }
	o.iw.pre = func(kind string, i int, s *Step) {
		if len(w.PendingTasks()) == 0 {
			o.tick(o.iw.now())
			o.syncRemoved(o.iw.now(), o.iw.dutAdj())
		}
	}
}

// syncRemoved: a down adjacency is removed 120 s after it went down; inside the window in which
// that may or may not have happened yet the model follows the DUT.
func (o *c31Oracle) syncRemoved(now time.Duration, dut map[string]uint8) {
	cfg := o.iw.w.Plan.ISIS
	for k, nc := range cfg.Nbrs {
		a := &o.m[k]
		st, present := dut[adjKey(cfg.Ifaces[nc.Iface], nc)]
		if a.exists && !present && a.state == packet.P2PAdjStateDown && now > a.chgMin+120*time.Second {
			a.exists = false
			o.iw.w.Env.probe("down_neighbour_removed")
		}
		// within one checker period after the holding time both "still up/init" and "down already"
		// are correct; the model follows what the DUT did
		if a.exists && present && a.state != packet.P2PAdjStateDown && st == packet.P2PAdjStateDown && now > a.lastHello+a.hold && now <= a.lastHello+a.hold+adjTick {
			a.state, a.chgMin, a.chgMax = packet.P2PAdjStateDown, a.lastHello+a.hold, now
			o.iw.w.Env.probe("hold_time_expiry_seen_in_window")
		}
	}
}

// settle the model's timers up to now
func (o *c31Oracle) tick(now time.Duration) {
	for k := range o.m {
		a := &o.m[k]
		if !a.exists {
			continue
		}
		// the holding time passed without a hello: Up and Init adjacencies go down (within one
		// period of the adjacency checker)
		if a.state != packet.P2PAdjStateDown && now > a.lastHello+a.hold+adjTick {
			a.state = packet.P2PAdjStateDown
			a.chgMin, a.chgMax = a.lastHello+a.hold, a.lastHello+a.hold+adjTick
		}
	}
}

func (o *c31Oracle) after(kind string, i int, s *Step) {
	w := o.iw.w
	cfg := w.Plan.ISIS
	now := o.iw.now()
	o.tick(now)
	switch kind {
	case "is_hello":
		nc := cfg.Nbrs[s.Peer]
		e := o.iw.eth[nc.Iface]
		delivered := e != nil && !e.isDown && o.iw.linkUp[nc.Iface]
		if !delivered || s.IS.Adj == "none" {
			w.Env.probe("hello_not_counted")
			break
		}
		a := &o.m[s.Peer]
		a.everHello = true
		if !a.exists {
			*a = adjModel{exists: true, state: packet.P2PAdjStateInit, lastHello: now, hold: time.Duration(s.IS.Hold) * time.Second, chgMin: now, chgMax: now, everHello: true}
			w.Env.probe("neighbour_created")
			break
		}
		a.lastHello, a.hold = now, time.Duration(s.IS.Hold)*time.Second
		lists := s.IS.Adj == "self"
		if lists && a.state != packet.P2PAdjStateUp {
			a.state, a.chgMin, a.chgMax = packet.P2PAdjStateUp, now, now
			w.Env.probe("handshake_completed")
		} else if !lists && a.state == packet.P2PAdjStateUp {
			a.state, a.chgMin, a.chgMax = packet.P2PAdjStateDown, now, now
			w.Env.probe("hello_no_longer_lists_dut")
		}
	case "is_link":
		was := o.prevUp[s.N]
		o.prevUp[s.N] = s.On
		if !s.On && was {
			for k, nc := range cfg.Nbrs {
				if nc.Iface == s.N && o.m[k].exists {
					if o.m[k].state != packet.P2PAdjStateDown {
						o.m[k].state, o.m[k].chgMin, o.m[k].chgMax = packet.P2PAdjStateDown, now, now
					} else {
						// the DUT stamps the state change of an adjacency that is down already again
						// (allowed: it still disappears, 120 s after the last link-down at the latest)
						o.m[k].chgMax = now
					}
				}
			}
		}
	}
	if len(w.PendingTasks()) > 0 {
		return
	}
	dut := o.iw.dutAdj()
	o.syncRemoved(now, dut)
	for k, nc := range cfg.Nbrs {
		a := &o.m[k]
		ic := cfg.Ifaces[nc.Iface]
		st, present := dut[adjKey(ic, nc)]
		if present && st == packet.P2PAdjStateUp {
			// Up only after a hello that lists this system and circuit, and not beyond the holding time
			if !a.exists || a.state != packet.P2PAdjStateUp {
				w.Env.Violate("C31", "up_without_listing_hello", "t=%v: adjacency %s is Up although %s", now, adjKey(ic, nc), o.why(a, now))
			}
		}
		if a.exists && a.state == packet.P2PAdjStateUp && now <= a.lastHello+a.hold {
			if !present || st != packet.P2PAdjStateUp {
				w.Env.Violate("C31", "not_up_after_handshake", "t=%v: the last hello of %s (t=%v, holding time %v) listed the DUT and its circuit, the adjacency existed before, but it is not Up (present=%v state=%d)", now, adjKey(ic, nc), a.lastHello, a.hold, present, st)
			}
		}
		// a neighbour that stopped sending hellos disappears eventually whether or not it ever came Up
		if a.exists && a.state == packet.P2PAdjStateDown && now > a.chgMax+120*time.Second+adjTick+time.Second {
			if present {
				w.Env.Violate("C31", "silent_neighbour_never_disappears", "t=%v: %s sent its last hello at t=%v with holding time %v and is down since t=%v at the latest, but it is still listed (state %d)", now, adjKey(ic, nc), a.lastHello, a.hold, a.chgMax, st)
			} else {
				a.exists = false
				w.Env.probe("silent_neighbour_gone")
			}
		}
		if !a.exists && present && !a.everHello {
			w.Env.Violate("C31", "adjacency_from_nowhere", "t=%v: %s is listed although no valid hello was ever delivered", now, adjKey(ic, nc))
		}
	}
	o.checkLSP(now, dut)
}

func (o *c31Oracle) why(a *adjModel, now time.Duration) string {
	if !a.exists {
		return "no valid hello created it"
	}
	if now > a.lastHello+a.hold+adjTick {
		return fmt.Sprintf("its last hello was at t=%v with holding time %v", a.lastHello, a.hold)
	}
	return fmt.Sprintf("its most recent hello (t=%v) did not list the DUT and its circuit, or was the first one (model state %d)", a.lastHello, a.state)
}

// checkLSP: once regenerated, the local LSP advertises exactly the Up adjacencies.
func (o *c31Oracle) checkLSP(now time.Duration, dut map[string]uint8) {
	w := o.iw.w
	cfg := w.Plan.ISIS
	for _, e := range o.iw.srv.GetLSDB() {
		l := e.GetLSPDU()
		if l == nil || l.LSPID != lspID(dutSys, 0) {
			continue
		}
		if o.lspSeen && l.SequenceNumber == o.ownSeq {
			return
		}
		o.lspSeen, o.ownSeq = true, l.SequenceNumber
		var adv []string
		for _, t := range l.TLVs {
			if x, ok := t.(*packet.ExtendedISReachabilityTLV); ok {
				for _, n := range x.Neighbors {
					adv = append(adv, n.NeighborID.SystemID.String())
				}
			}
		}
		var up []string
		for k, nc := range cfg.Nbrs {
			_ = k
			if st, ok := dut[adjKey(cfg.Ifaces[nc.Iface], nc)]; ok && st == packet.P2PAdjStateUp {
				up = append(up, sysID(nc.Sys).String())
			}
		}
		sort.Strings(adv)
		sort.Strings(up)
		if strings.Join(adv, ",") != strings.Join(up, ",") {
			w.Env.Violate("C31", "lsp_adjacencies_differ", "t=%v: the regenerated local LSP (sequence %d) advertises IS neighbours [%s] but the Up adjacencies are [%s]", now, l.SequenceNumber, strings.Join(adv, ","), strings.Join(up, ","))
		} else {
			w.Env.probe("lsp_regenerated_and_consistent")
		}
		return
	}
}

func (o *c31Oracle) AfterStep(w *World, i int, s *Step) {}
func (o *c31Oracle) Final(w *World) {
	w.Data["nontrivial"] = w.Env.Probes["handshake_completed"] > 0 || w.Env.Probes["neighbour_created"] > 0
	w.Data["shape"] = isisShape(o.iw)
}

func init() {
	bgpProps["C33"] = propDef{Gen: genC33, Oracles: func(p *Plan) []Oracle { return []Oracle{&c33Oracle{}} }}
	bgpProps["C31"] = propDef{Gen: genC31, Oracles: func(p *Plan) []Oracle { return []Oracle{&c31Oracle{}} }}
}

package bgp

// C36: configuration reload converges to the new configuration (cfgsim).
//
// The real reload path of cmd/bio-rd (config.GetConfig on a YAML file -> loadConfig ->
// bgpConfigurator.configure) is applied to a LIVE BGP server inside the simulation: sessions
// are established with scripted neighbours, routes flow, then a second (third) configuration
// is loaded; sessions the configurator restarts are re-established by the neighbours, time
// passes, everybody (re)announces. The metamorphic twin run starts a fresh server with only the
// last configuration and the same neighbours. Both runs must end with the same set of
// configured peers, the same effective session settings (the server's PeerConfig per peer and
// the OPEN the DUT sent on the current connection) and the same Loc-RIB and Adj-RIB-Outs.
//
// The code under test lives in package main, which cannot be imported: the cfg engine is a
// test binary of cmd/bio-rd itself (its TestProp comes from /verif/overlay/cmd/bio-rd and calls
// RunMain of this package); it sets CfgApply to the real loader + configurator.

import (
	"fmt"
	"sort"
	"strings"
	"testing"

	"github.com/bio-routing/bio-rd/protocols/bgp/server"
)

// CfgApply loads a YAML configuration into the running DUT through bio-rd's own reload path.
// Set by the cfg engine (package main of cmd/bio-rd).
var CfgApply func(w *World, yaml string) error

// CfgSpec is one configuration from the bounded grammar.
type CfgSpec struct {
	Groups []CfgGroup `json:"groups"`
}

// CfgGroup is a BGP group; settings are inherited by its neighbours unless overridden.
type CfgGroup struct {
	Name      string   `json:"name"`
	PeerAS    uint32   `json:"peer_as,omitempty"`
	Hold      uint16   `json:"hold,omitempty"`
	Passive   *bool    `json:"passive,omitempty"`
	Import    []string `json:"import,omitempty"`
	Export    []string `json:"export,omitempty"`
	RRClient  *bool    `json:"rr_client,omitempty"`
	RSClient  *bool    `json:"rs_client,omitempty"`
	TTL       uint8    `json:"ttl,omitempty"`
	AuthKey   string   `json:"auth_key,omitempty"`
	ClusterID string   `json:"cluster_id,omitempty"`
	IPv4      *CfgAF   `json:"ipv4,omitempty"`
	Neighbors []CfgNbr `json:"neighbors"`
}

// CfgNbr is a neighbour 10.0.0.<host>.
type CfgNbr struct {
	Host     uint8    `json:"host"`
	PeerAS   uint32   `json:"peer_as,omitempty"`
	Hold     uint16   `json:"hold,omitempty"`
	Import   []string `json:"import,omitempty"`
	Export   []string `json:"export,omitempty"`
	TTL      uint8    `json:"ttl,omitempty"`
	AuthKey  string   `json:"auth_key,omitempty"`
	RRClient *bool    `json:"rr_client,omitempty"`
	Disabled bool     `json:"disabled,omitempty"`
	IPv4     *CfgAF   `json:"ipv4,omitempty"`
	IPv6     *CfgAF   `json:"ipv6,omitempty"` // a second (non-native) address family on an IPv4 neighbour
	AdvMP    bool     `json:"adv_mp,omitempty"`
}

// CfgAF is an address family block.
type CfgAF struct {
	Recv      bool  `json:"recv,omitempty"`
	Send      bool  `json:"send,omitempty"`
	Multipath bool  `json:"multipath,omitempty"`
	PathCount uint8 `json:"path_count,omitempty"`
}

const cfgPolicies = `policy_options:
  policy_statements:
    - name: "ACCEPT_ALL"
      terms:
        - name: "a"
          then:
            accept: true
    - name: "REJECT_ALL"
      terms:
        - name: "r"
          then:
            reject: true
    - name: "SET_LP_200"
      terms:
        - name: "lp"
          then:
            local_pref: 200
            accept: true
    - name: "SET_MED_77"
      terms:
        - name: "med"
          then:
            med: 77
            accept: true
    - name: "REJECT_SOME"
      terms:
        - name: "some"
          from:
            route_filters:
              - prefix: "100.0.0.0/8"
                matcher: "longer"
          then:
            reject: true
        - name: "rest"
          then:
            accept: true
`

func yamlList(xs []string) string {
	var q []string
	for _, x := range xs {
		q = append(q, fmt.Sprintf("%q", x))
	}
	return "[" + strings.Join(q, ", ") + "]"
}

func (af *CfgAF) yaml(sb *strings.Builder, ind string) { af.yamlFam(sb, ind, "ipv4") }

func (af *CfgAF) yamlFam(sb *strings.Builder, ind, fam string) {
	fmt.Fprintf(sb, "%s%s:\n%s  add_path:\n%s    receive: %v\n", ind, fam, ind, ind, af.Recv)
	if af.Send {
		fmt.Fprintf(sb, "%s    send:\n%s      multipath: %v\n%s      path_count: %d\n", ind, ind, af.Multipath, ind, af.PathCount)
	}
}

// YAML renders the configuration file.
func (c CfgSpec) YAML() string {
	var sb strings.Builder
	sb.WriteString("routing_options:\n  autonomous_system: 65000\n  router_id: 10.0.0.254\n")
	sb.WriteString(cfgPolicies)
	sb.WriteString("protocols:\n  bgp:\n    groups:\n")
	for _, g := range c.Groups {
		fmt.Fprintf(&sb, "      - name: %q\n        local_address: 10.0.0.254\n", g.Name)
		if g.PeerAS != 0 {
			fmt.Fprintf(&sb, "        peer_as: %d\n", g.PeerAS)
		}
		if g.Hold != 0 {
			fmt.Fprintf(&sb, "        hold_time: %d\n", g.Hold)
		}
		if g.Passive != nil {
			fmt.Fprintf(&sb, "        passive: %v\n", *g.Passive)
		}
		if len(g.Import) > 0 {
			fmt.Fprintf(&sb, "        import: %s\n", yamlList(g.Import))
		}
		if len(g.Export) > 0 {
			fmt.Fprintf(&sb, "        export: %s\n", yamlList(g.Export))
		}
		if g.RRClient != nil {
			fmt.Fprintf(&sb, "        route_reflector_client: %v\n", *g.RRClient)
		}
		if g.RSClient != nil {
			fmt.Fprintf(&sb, "        route_server_client: %v\n", *g.RSClient)
		}
		if g.TTL != 0 {
			fmt.Fprintf(&sb, "        ttl: %d\n", g.TTL)
		}
		if g.AuthKey != "" {
			fmt.Fprintf(&sb, "        authentication_key: %q\n", g.AuthKey)
		}
		if g.ClusterID != "" {
			fmt.Fprintf(&sb, "        cluster_id: %s\n", g.ClusterID)
		}
		if g.IPv4 != nil {
			g.IPv4.yaml(&sb, "        ")
		}
		sb.WriteString("        neighbors:\n")
		for _, n := range g.Neighbors {
			fmt.Fprintf(&sb, "          - peer_address: 10.0.0.%d\n", n.Host)
			if n.PeerAS != 0 {
				fmt.Fprintf(&sb, "            peer_as: %d\n", n.PeerAS)
			}
			if n.Hold != 0 {
				fmt.Fprintf(&sb, "            hold_time: %d\n", n.Hold)
			}
			if len(n.Import) > 0 {
				fmt.Fprintf(&sb, "            import: %s\n", yamlList(n.Import))
			}
			if len(n.Export) > 0 {
				fmt.Fprintf(&sb, "            export: %s\n", yamlList(n.Export))
			}
			if n.TTL != 0 {
				fmt.Fprintf(&sb, "            ttl: %d\n", n.TTL)
			}
			if n.AuthKey != "" {
				fmt.Fprintf(&sb, "            authentication_key: %q\n", n.AuthKey)
			}
			if n.RRClient != nil {
				fmt.Fprintf(&sb, "            route_reflector_client: %v\n", *n.RRClient)
			}
			if n.Disabled {
				sb.WriteString("            disabled: true\n")
			}
			if n.AdvMP {
				sb.WriteString("            advertise_ipv4_multiprotocol: true\n")
			}
			if n.IPv4 != nil {
				n.IPv4.yaml(&sb, "            ")
			}
			if n.IPv6 != nil {
				n.IPv6.yamlFam(&sb, "            ", "ipv6")
			}
		}
	}
	return sb.String()
}

func (c CfgSpec) hosts() map[uint8]CfgNbr {
	out := map[uint8]CfgNbr{}
	for _, g := range c.Groups {
		for _, n := range g.Neighbors {
			out[n.Host] = n
		}
	}
	return out
}

// passive: does the DUT wait for this neighbour to connect?
func (c CfgSpec) passive(host uint8) bool {
	for _, g := range c.Groups {
		for _, n := range g.Neighbors {
			if n.Host == host {
				return g.Passive == nil || *g.Passive
			}
		}
	}
	return true
}

func bp(b bool) *bool { return &b }

func cloneCfg(c CfgSpec) CfgSpec {
	var q CfgSpec
	for _, g := range c.Groups {
		g2 := g
		g2.Neighbors = append([]CfgNbr(nil), g.Neighbors...)
		g2.Import = append([]string(nil), g.Import...)
		g2.Export = append([]string(nil), g.Export...)
		q.Groups = append(q.Groups, g2)
	}
	return q
}

var cfgPolicyNames = []string{"ACCEPT_ALL", "SET_LP_200", "SET_MED_77", "REJECT_SOME", "REJECT_ALL"}

func genC36(seed uint64) *Plan {
	r := propRand("C36", seed)
	pl := newPlan("C36", seed, r)
	pl.Engine = "cfgsim"
	pl.Sim.ShuffleTies = false
	nh := 2 + r.Intn(3)
	// the neighbours' AS numbers are fixed per host (the scripted neighbour does not change its AS)
	asOf := func(h uint8) uint32 {
		if h%3 == 0 {
			return 65000 // iBGP
		}
		return 65000 + uint32(h)
	}
	base := CfgSpec{}
	ng := 1 + r.Intn(2)
	for gi := 0; gi < ng; gi++ {
		// most groups wait for the neighbour to connect; in the others the DUT dials (after its
		// reconnect interval of 15 s) and one FSM serves all sessions of the neighbour
		g := CfgGroup{Name: fmt.Sprintf("g%d", gi), Passive: bp(r.Chance(0.65)), Hold: pick(r, []uint16{0, 90, 30}),
			Import: []string{pick(r, cfgPolicyNames[:4])}, Export: []string{pick(r, cfgPolicyNames[:4])}}
		if r.Chance(0.3) {
			g.IPv4 = &CfgAF{Recv: r.Chance(0.5), Send: r.Chance(0.5), Multipath: true, PathCount: uint8(2 + r.Intn(3))}
		}
		base.Groups = append(base.Groups, g)
	}
	for h := 1; h <= nh; h++ {
		n := CfgNbr{Host: uint8(h), PeerAS: asOf(uint8(h))}
		if r.Chance(0.3) {
			n.Hold = pick(r, []uint16{30, 60, 90})
		}
		if r.Chance(0.3) {
			n.Import = []string{pick(r, cfgPolicyNames[:4])}
		}
		if r.Chance(0.15) {
			n.IPv6 = &CfgAF{}
		}
		gi := r.Intn(ng)
		base.Groups[gi].Neighbors = append(base.Groups[gi].Neighbors, n)
	}
	pl.Cfgs = []CfgSpec{base}
	nreload := 1 + r.Intn(2)
	cur := base
	for k := 0; k < nreload; k++ {
		nx := cloneCfg(cur)
		nm := 1 + r.Intn(3)
		for m := 0; m < nm; m++ {
			gi := r.Intn(len(nx.Groups))
			g := &nx.Groups[gi]
			if len(g.Neighbors) == 0 {
				continue
			}
			ni := r.Intn(len(g.Neighbors))
			n := &g.Neighbors[ni]
			switch r.Intn(13) {
			case 12:
				// the IPv6 family is enabled on / removed from the (IPv4) neighbour
				if n.IPv6 == nil {
					n.IPv6 = &CfgAF{Recv: r.Chance(0.3)}
				} else {
					n.IPv6 = nil
				}
			case 0:
				n.Hold = pick(r, []uint16{30, 60, 90, 180})
			case 1:
				g.Hold = pick(r, []uint16{30, 60, 90, 180})
			case 2:
				n.Import = []string{pick(r, cfgPolicyNames)}
			case 3:
				g.Export = []string{pick(r, cfgPolicyNames)}
			case 4:
				n.TTL = uint8(1 + r.Intn(200))
			case 5:
				n.IPv4 = &CfgAF{Recv: r.Chance(0.7), Send: r.Chance(0.5), Multipath: true, PathCount: uint8(2 + r.Intn(3))}
			case 6:
				n.AdvMP = !n.AdvMP
			case 7:
				n.Disabled = !n.Disabled
			case 8:
				// the neighbour is removed
				g.Neighbors = append(g.Neighbors[:ni:ni], g.Neighbors[ni+1:]...)
			case 9:
				// a neighbour is added (or comes back)
				have := nx.hosts()
				for h := uint8(1); h <= uint8(nh)+1; h++ {
					if _, ok := have[h]; !ok {
						g.Neighbors = append(g.Neighbors, CfgNbr{Host: h, PeerAS: asOf(h)})
						break
					}
				}
			case 10:
				if asOf(n.Host) == 65000 {
					n.RRClient = bp(n.RRClient == nil || !*n.RRClient)
				} else {
					n.Export = []string{pick(r, cfgPolicyNames)}
				}
			case 11:
				// the neighbour moves to the other group (inherits other settings)
				if len(nx.Groups) > 1 {
					moved := *n
					g.Neighbors = append(g.Neighbors[:ni:ni], g.Neighbors[ni+1:]...)
					og := &nx.Groups[(gi+1)%len(nx.Groups)]
					og.Neighbors = append(og.Neighbors, moved)
				}
			}
		}
		pl.Cfgs = append(pl.Cfgs, nx)
		cur = nx
	}
	// scripted neighbours for every host that appears in some configuration
	hosts := map[uint8]bool{}
	for _, c := range pl.Cfgs {
		for h := range c.hosts() {
			hosts[h] = true
		}
	}
	var hs []int
	for h := range hosts {
		hs = append(hs, int(h))
	}
	sort.Ints(hs)
	for _, h := range hs {
		pc := basicPeer(h-1, asOf(uint8(h)))
		pc.Name = fmt.Sprintf("n%d", h)
		pc.Shadow, pc.DialTarget = true, true
		pc.PeerAddPath = 3
		pc.PeerMPv4 = true
		pc.PeerHold = 90
		pc.MinDelayUS, pc.JitterUS, pc.ReplyDelayUS = 200, 0, 300
		pl.Peers = append(pl.Peers, pc)
	}
	pl.Steps = cfgSteps(len(pl.Cfgs), 0)
	if r.Chance(0.4) {
		// some sessions are down while a reload is applied (the neighbour went away a moment before
		// and comes back afterwards): what the reload changed must hold for the session that follows
		var st []Step
		for _, s := range pl.Steps {
			if s.Kind == "cfg_apply" && s.N > 0 {
				st = append(st, Step{GapUS: 300_000, Kind: "cfg_drop", N: 1 + r.Intn(1<<uint(len(pl.Peers))-1)})
			}
			st = append(st, s)
		}
		pl.Steps = st
	}
	pl.TailUS = 1_000_000
	return pl
}

// cfgSteps: apply configurations from..n-1 one after the other with (re)connects, time and
// announcements in between.
func cfgSteps(n, from int) []Step {
	var st []Step
	for k := from; k < n; k++ {
		st = append(st, Step{GapUS: 500_000, Kind: "cfg_apply", N: k})
		st = append(st, Step{GapUS: 1_000_000, Kind: "cfg_connect"})
		st = append(st, Step{GapUS: 20_000_000, Kind: "cfg_connect"}) // sessions the DUT restarted or that were slow
		st = append(st, Step{GapUS: 3_000_000, Kind: "cfg_announce"})
		st = append(st, Step{GapUS: 3_000_000, Kind: "checkpoint"})
	}
	return st
}

type c36Oracle struct {
	cur       int
	announced map[int]*Conn
	into      *map[string][]string
}

func (o *c36Oracle) Init(w *World) {
	o.announced = map[int]*Conn{}
	o.cur = -1
	w.Data["exec:cfg_apply"] = func(w *World, i int, s *Step) {
		if CfgApply == nil {
			w.Env.Violate("HARNESS", "not_the_cfg_engine", "C36 plans need the cfg engine (test binary of cmd/bio-rd)")
			return
		}
		o.cur = s.N
		yaml := w.Plan.Cfgs[s.N].YAML()
		w.Go(fmt.Sprintf("loadConfig(#%d)", s.N), func() {
			if err := CfgApply(w, yaml); err != nil {
				w.Env.Violate("HARNESS", "generated_configuration_rejected", "configuration %d was rejected: %v\n%s", s.N, err, yaml)
			}
		})
		w.Env.fault("config_reload")
	}
	w.Data["exec:cfg_connect"] = func(w *World, i int, s *Step) {
		if o.cur < 0 {
			return
		}
		want := w.Plan.Cfgs[o.cur].hosts()
		for _, p := range w.Peers {
			n, ok := want[p.Cfg.Addr[3]]
			if !ok || n.Disabled {
				continue
			}
			if !w.Plan.Cfgs[o.cur].passive(p.Cfg.Addr[3]) {
				continue // the DUT dials this neighbour
			}
			if p.conn == nil || p.conn.ClosedByDUT() || p.conn.peerClosed {
				p.Connect()
				w.Env.probe("neighbour_connects")
			}
		}
	}
	w.Data["exec:cfg_drop"] = func(w *World, i int, s *Step) {
		for pi, p := range w.Peers {
			if s.N&(1<<uint(pi)) == 0 || p.conn == nil || p.conn.peerClosed || p.conn.ClosedByDUT() {
				continue
			}
			p.CloseConn(false)
			w.Env.fault("peer_close")
			w.Env.probe("neighbour_down_during_reload")
		}
		w.Env.Sim.Settle()
	}
	w.Data["exec:cfg_announce"] = func(w *World, i int, s *Step) {
		for pi, p := range w.Peers {
			if !p.Established() || o.announced[pi] == p.conn {
				continue
			}
			o.announced[pi] = p.conn
			h := p.Cfg.Addr[3]
			asns := []uint32{}
			if p.Cfg.AS != w.Plan.DUT.LocalAS {
				asns = append(asns, p.Cfg.AS)
			}
			asns = append(asns, 20000+uint32(h))
			at := &AttrSpec{ASPath: []Segment{{2, asns}}, NextHop: 0x0a000000 | uint32(h)}
			if p.Cfg.AS == w.Plan.DUT.LocalAS {
				at.LocalPref = u32p(100)
			}
			w.exec(i, &Step{Kind: "announce", Peer: pi, Pfx: []Prefix{P4(100, h, 0, 0, 16), P4(100, h, 1, 0, 24), P4(198, 51, h, 0, 24)}, Attr: at})
			w.Env.probe("neighbour_announces")
		}
	}
}

func (o *c36Oracle) AfterStep(w *World, i int, s *Step) {}

func cfgString(pc *server.PeerConfig) string {
	if pc == nil {
		return "<none>"
	}
	af := func(a *server.AddressFamilyConfig) string {
		if a == nil {
			return "-"
		}
		return fmt.Sprintf("{recv=%v send=%+v nhext=%v}", a.AddPathRecv, a.AddPathSend, a.NextHopExtended)
	}
	la := "<nil>"
	if pc.LocalAddress != nil {
		la = pc.LocalAddress.String()
	}
	return fmt.Sprintf("enabled=%v auth=%q hold=%v keepalive=%v local=%s ttl=%d local_as=%d peer_as=%d passive=%v rs_client=%v rr_client=%v cluster=%d adv_mp=%v v4=%s v6=%s",
		pc.AdminEnabled, pc.AuthenticationKey, pc.HoldTime, pc.KeepAlive, la, pc.TTL, pc.LocalAS, pc.PeerAS, pc.Passive, pc.RouteServerClient, pc.RouteReflectorClient,
		pc.RouteReflectorClusterID, pc.AdvertiseIPv4MultiProtocol, af(pc.IPv4), af(pc.IPv6))
}

func (o *c36Oracle) Final(w *World) {
	out := finalTables(w)
	var peers []string
	for _, k := range w.DUT.Srv.GetPeers() {
		peers = append(peers, k.Addr().String())
	}
	sort.Strings(peers)
	out["configured_peers"] = peers
	for _, p := range w.Peers {
		out["peer_config/"+p.Cfg.Name] = []string{cfgString(w.DUT.Srv.GetPeerConfig(w.DUT.VRF, p.Cfg.bnetAddr()))}
		open := "<no connection>"
		if p.conn != nil && !p.conn.ClosedByDUT() && !p.conn.peerClosed {
			open = "<no OPEN received>"
			for _, m := range p.Rx {
				if m.Conn == p.conn && m.Msg.Type == MsgOpen && m.Msg.Open != nil {
					open = fmt.Sprintf("%x", m.Msg.Raw)
				}
			}
		}
		out["session_open/"+p.Cfg.Name] = []string{open}
	}
	*o.into = out
	w.Data["captured"] = out
	w.Data["nontrivial"] = w.Env.Probes["neighbour_announces"] > 0
}

// twinC36 runs a fresh server with the last configuration only and compares.
func twinC36(t *testing.T, plan *Plan, res *RunResult) {
	if res.Wedged || res.Captured == nil || len(plan.Cfgs) < 2 {
		return
	}
	tp := clonePlan(plan)
	last := len(tp.Cfgs) - 1
	tp.Cfgs = []CfgSpec{tp.Cfgs[last]}
	tp.Steps = cfgSteps(1, 0)
	tp.Note = "twin: fresh start with the last configuration"
	var twin map[string][]string
	tres := RunPlan(t, tp, RunOpts{Oracles: func(p *Plan) []Oracle { return []Oracle{&c36Oracle{into: &twin}} }})
	if tres.Panic != "" || tres.Wedged || twin == nil {
		res.Inconclusive++
		return
	}
	var keys []string
	for k := range twin {
		keys = append(keys, k)
	}
	sort.Strings(keys)
	for _, k := range keys {
		onlyA, onlyB := DiffLines(res.Captured[k], twin[k])
		if len(onlyA)+len(onlyB) > 0 {
			kind := k
			if j := strings.Index(k, "/"); j > 0 {
				kind = k[:j]
			}
			res.Violations = append(res.Violations, Violation{Prop: "C36", Assertion: "reload_differs_from_fresh_" + kind,
				Detail: fmt.Sprintf("%s: after reloading configurations 0..%d: %v ; fresh start with configuration %d: %v", k, last, onlyA, last, onlyB),
				Step:   len(plan.Steps), SimTimeNS: res.SimTimeNS})
		}
	}
}

func init() {
	bgpProps["C36"] = propDef{Gen: genC36, Oracles: func(p *Plan) []Oracle {
		var sink map[string][]string
		return []Oracle{&c36Oracle{into: &sink}}
	}, Twin: twinC36,
		// the configuration loads with their (re)connect / announce / observe steps are what the fresh
		// start is compared with: a plan without them differs from the twin for no reason at all
		KeepStep: func(s *Step) bool {
			return s.Kind == "cfg_apply" || s.Kind == "cfg_connect" || s.Kind == "cfg_announce" || s.Kind == "checkpoint"
		}}
}

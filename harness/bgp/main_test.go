package bgp

import "testing"

// TestProp is the entry point vcheck runs (see RunMain).
func TestProp(t *testing.T) { RunMain(t) }

package bgp

import (
	"fmt"
	"strings"
)

// C24: connection collisions. The neighbour is configured as an active peer on the DUT
// (the DUT dials out through the Dial seam) and also connects in. Two scripted endpoints
// share the neighbour's identity: Peers[0] terminates the connection the DUT dials
// ("out"), Peers[1] opens the incoming one ("in"). A third, ordinary peer provides routes.

func genC24(seed uint64) *Plan {
	r := propRand("C24", seed)
	pl := newPlan("C24", seed, r)
	as := uint32(65001)
	if r.Chance(0.3) {
		as = 65000
	}
	base := basicPeer(0, as)
	switch r.Intn(3) {
	case 0:
		base.ID = 0x0a000001 // lower than the DUT's 10.0.0.254
	case 1:
		base.ID = 0x0a0000ff // higher
	default:
		if as != 65000 {
			base.ID = pl.DUT.RouterID // equal identifiers: RFC 6286, the AS numbers decide
			if r.Chance(0.5) {
				base.AS = 64999 // lower than the DUT's AS
			}
		} else {
			base.ID = 0x0a0000ff
		}
	}
	base.PeerHold, base.DUTHold = 30, 30
	out := base
	out.Name, out.Active, out.DialTarget, out.ReconnectUS = "n-out", true, true, 1_000_000
	in := base
	in.Name, in.Shadow = "n-in", true
	scenario := pick(r, []string{"clean", "clean", "racy", "racy", "late", "simul"})
	if scenario == "clean" || scenario == "simul" {
		out.ManualOpen, in.ManualOpen = true, true
	} else {
		out.ReplyDelayUS = int64(100 + r.Intn(40_000))
		in.ReplyDelayUS = int64(100 + r.Intn(40_000))
		out.MinDelayUS, in.MinDelayUS = int64(50+r.Intn(5000)), int64(50+r.Intn(5000))
	}
	src := basicPeer(2, 65100)
	src.Name = "src"
	pl.Peers = []PeerCfg{out, in, src}
	pl.Params = map[string]int64{}
	pl.Note = scenario
	pl.Steps = append(pl.Steps, Step{GapUS: 1000, Kind: "connect", Peer: 2})
	pl.Steps = append(pl.Steps, Step{GapUS: 300_000, Kind: "announce", Peer: 2, Pfx: []Prefix{P4(203, 0, 113, 0, 24)},
		Attr: &AttrSpec{ASPath: []Segment{{2, []uint32{65100, 20001}}}, NextHop: 0x0a000003}})
	switch scenario {
	case "clean":
		// the DUT dials at t = 1 s; the neighbour connects in at about the same time; both OPENs
		// are delivered before either KEEPALIVE, in a chosen order
		pl.Steps = append(pl.Steps, Step{GapUS: int64(680_000 + r.Intn(40_000)), Kind: "connect2", Peer: 1})
		pl.Steps = append(pl.Steps, Step{GapUS: 200_000, Kind: "checkpoint", Label: "both_opensent"})
		first, second := 0, 1
		if r.Chance(0.5) {
			first, second = 1, 0
		}
		pl.Steps = append(pl.Steps, Step{GapUS: 1000, Kind: "send_open", Peer: first})
		pl.Steps = append(pl.Steps, Step{GapUS: int64(1000 + r.Intn(50_000)), Kind: "send_open", Peer: second})
		pl.Steps = append(pl.Steps, Step{GapUS: int64(10_000 + r.Intn(50_000)), Kind: "keepalive", Peer: first, Label: "complete"})
		pl.Steps = append(pl.Steps, Step{GapUS: int64(1000 + r.Intn(50_000)), Kind: "keepalive", Peer: second, Label: "complete"})
	case "simul":
		// both OPENs arrive in the same instant: the two FSM goroutines handle them interleaved at
		// every lock boundary and write (seeded scheduler), e.g. one has passed its collision check
		// and not yet published its new state when the other one checks
		pl.Sim.GateProb = pick(r, []float64{0.5, 1})
		pl.Sim.Sticky = pick(r, []float64{0, 0.5})
		pl.Sim.RandomHandoff = r.Chance(0.5)
		pl.Steps = append(pl.Steps, Step{GapUS: int64(680_000 + r.Intn(40_000)), Kind: "connect2", Peer: 1})
		pl.Steps = append(pl.Steps, Step{GapUS: 200_000, Kind: "checkpoint", Label: "both_opensent"})
		pl.Steps = append(pl.Steps, Step{GapUS: 1000, Kind: "par", Par: []Step{{Kind: "send_open", Peer: 0}, {Kind: "send_open", Peer: 1}}})
		first, second := 0, 1
		if r.Chance(0.5) {
			first, second = 1, 0
		}
		pl.Steps = append(pl.Steps, Step{GapUS: int64(10_000 + r.Intn(50_000)), Kind: "keepalive", Peer: first, Label: "complete"})
		pl.Steps = append(pl.Steps, Step{GapUS: int64(1000 + r.Intn(50_000)), Kind: "keepalive", Peer: second, Label: "complete"})
	case "racy":
		pl.Steps = append(pl.Steps, Step{GapUS: int64(650_000 + r.Intn(100_000)), Kind: "connect2", Peer: 1})
	case "late":
		// the incoming connection arrives when the dialled one is already Established
		pl.Steps = append(pl.Steps, Step{GapUS: int64(2_000_000 + r.Intn(5_000_000)), Kind: "connect2", Peer: 1})
	}
	pl.Steps = append(pl.Steps, Step{GapUS: 3_000_000, Kind: "checkpoint", Label: "settled"})
	manual := scenario == "clean" || scenario == "simul" // endpoints scripted by hand: nothing happens without send_open / keepalive steps
	if !manual && r.Chance(0.6) {
		// the neighbour restarts: both connections go away, the DUT dials again after its reconnect
		// interval and the neighbour connects in around the same time: a second collision on a peer
		// that still remembers the FSMs of the first one
		rounds := 1 + r.Intn(2)
		for k := 0; k < rounds; k++ {
			pl.Steps = append(pl.Steps, Step{GapUS: int64(100_000 + r.Intn(2_000_000)), Kind: "peer_close", Peer: 0, On: r.Chance(0.5)})
			pl.Steps = append(pl.Steps, Step{GapUS: int64(r.Intn(50_000)), Kind: "peer_close", Peer: 1, On: r.Chance(0.5)})
			pl.Steps = append(pl.Steps, Step{GapUS: int64(600_000 + r.Intn(800_000)), Kind: "connect2", Peer: 1})
			pl.Steps = append(pl.Steps, Step{GapUS: 4_000_000, Kind: "checkpoint", Label: "settled"})
		}
		pl.Note = scenario + "+again"
	} else if manual && r.Chance(0.5) {
		// the same with hand-scripted endpoints: the loser of the first collision was ceased in
		// OpenConfirm; both connections are dropped and a second clean collision follows
		pl.Steps = append(pl.Steps, Step{GapUS: int64(100_000 + r.Intn(1_000_000)), Kind: "peer_close", Peer: 0, On: r.Chance(0.5)})
		pl.Steps = append(pl.Steps, Step{GapUS: int64(r.Intn(50_000)), Kind: "peer_close", Peer: 1, On: r.Chance(0.5)})
		pl.Steps = append(pl.Steps, Step{GapUS: int64(680_000 + r.Intn(40_000)), Kind: "connect2", Peer: 1})
		pl.Steps = append(pl.Steps, Step{GapUS: 900_000, Kind: "checkpoint", Label: "both_opensent"})
		first, second := 0, 1
		if r.Chance(0.5) {
			first, second = 1, 0
		}
		pl.Steps = append(pl.Steps, Step{GapUS: 1000, Kind: "send_open", Peer: first})
		pl.Steps = append(pl.Steps, Step{GapUS: int64(1000 + r.Intn(50_000)), Kind: "send_open", Peer: second})
		pl.Steps = append(pl.Steps, Step{GapUS: int64(10_000 + r.Intn(50_000)), Kind: "keepalive", Peer: first, Label: "complete"})
		pl.Steps = append(pl.Steps, Step{GapUS: int64(1000 + r.Intn(50_000)), Kind: "keepalive", Peer: second, Label: "complete"})
		pl.Steps = append(pl.Steps, Step{GapUS: 3_000_000, Kind: "checkpoint", Label: "settled"})
		pl.Params["second_round"] = 1
	}
	// the survivor exchanges routes
	pl.Steps = append(pl.Steps, Step{GapUS: 1000, Kind: "checkpoint", Label: "final"})
	pl.TailUS = 1_000_000
	return pl
}

type c24Oracle struct{ maxEst int }

func (o *c24Oracle) Init(w *World) {}

func (o *c24Oracle) count(w *World) (est, contributing int, states string) {
	for _, f := range w.DUT.FSMs(w.Peers[0]) {
		states += f.State + " "
		if f.State == "established" {
			est++
		}
		if f.RibsInitialized {
			contributing++
		}
	}
	return
}

func (o *c24Oracle) AfterStep(w *World, i int, s *Step) {
	est, contrib, states := o.count(w)
	if est > 1 {
		w.Env.Violate("C24", "two_established", "after step %d (%s): %d FSMs of the neighbour are Established (%s)", i, s.Kind, est, states)
	}
	if contrib > 1 {
		w.Env.Violate("C24", "two_contributing", "after step %d (%s): %d FSMs of the neighbour have their RIBs attached (%s)", i, s.Kind, contrib, states)
	}
	if s.Kind != "checkpoint" || s.Label != "settled" {
		return
	}
	outP, inP := w.Peers[0], w.Peers[1]
	if outP.conn == nil {
		w.Env.probe("dut_never_dialled")
		return
	}
	if inP.conn == nil {
		return
	}
	w.Env.probe("collision_scenario_" + w.Plan.Note)
	if est != 1 {
		w.Env.Violate("C24", "no_session_after_collision", "3 s after both connections completed their handshake attempts %d FSMs are Established (%s)", est, states)
		return
	}
	// which connection survived?
	var surv *Conn
	for _, f := range w.DUT.FSMs(outP) {
		if f.State == "established" {
			surv, _ = f.Con.(*Conn)
		}
	}
	loser, loserPeer := inP.conn, inP
	if surv == inP.conn {
		loser, loserPeer = outP.conn, outP
	}
	if loser.peerClosedFirst {
		// (later rounds) the other endpoint still holds the connection the neighbour closed itself:
		// there was no second connection in this round
		w.Env.probe("round_without_collision")
		return
	}
	// the other connection is closed with a Cease NOTIFICATION
	if !loser.ClosedByDUT() {
		w.Env.Violate("C24", "loser_not_closed", "connection %s lost the collision but was not closed by the DUT", loser.name)
	}
	cease := false
	for _, n := range loserPeer.Notifs {
		if n.Conn == loser && n.Msg.Notif.Code == 6 {
			cease = true
		}
	}
	if !cease && loser.ClosedByDUT() {
		w.Env.Violate("C24", "loser_without_cease", "connection %s was closed without a Cease NOTIFICATION (got %s)", loser.name, notifString(loserPeer, loser))
	}
	// the survivor is the one RFC 4271 6.8 / RFC 6286 selects - judged in the clean scenario, in
	// which both connections are in OpenSent/OpenConfirm when the collision is detected
	if w.Plan.Note == "clean" {
		dut := w.Plan.DUT
		pc := outP.Cfg
		var wantOut bool // the connection initiated by the DUT survives iff the DUT has the higher identifier
		switch {
		case dut.RouterID != pc.ID:
			wantOut = dut.RouterID > pc.ID
		default:
			wantOut = dut.LocalAS > pc.AS
		}
		gotOut := surv == outP.conn
		if gotOut != wantOut {
			w.Env.Violate("C24", "wrong_survivor", "local id %#x as %d, neighbour id %#x as %d: the connection initiated by %s must survive, but %s survived",
				dut.RouterID, dut.LocalAS, pc.ID, pc.AS, map[bool]string{true: "the DUT", false: "the neighbour"}[wantOut], surv.name)
		}
	}
}

func (o *c24Oracle) Final(w *World) {
	est, _, states := o.count(w)
	if est > 1 {
		w.Env.Violate("C24", "two_established", "at the end: %d Established FSMs (%s)", est, states)
	}
	w.Env.probe("final_fsm_states: " + strings.TrimSpace(states))
	_ = fmt.Sprint
}

func init() {
	bgpProps["C24"] = propDef{Gen: genC24, Oracles: func(p *Plan) []Oracle { return []Oracle{&c24Oracle{}} },
		// hand-scripted endpoints do nothing by themselves: without their OPEN / KEEPALIVE steps the
		// "a session exists after the collision" expectation of a "settled" checkpoint is void
		KeepStep: func(s *Step) bool {
			return s.Kind == "send_open" || s.Kind == "keepalive" || s.Kind == "par" || s.Kind == "connect2"
		}}
}

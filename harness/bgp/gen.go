package bgp

import (
	"fmt"
	"sort"

	"verif.local/simrt"
)

// Profile steers the plan generator for one property.
type Profile struct {
	MinPeers, MaxPeers int
	KindWeights        map[string]int // ebgp, rs, ibgp, rr
	V6Prob             float64
	AddPathRXProb      float64
	AddPathTXProb      float64
	RoleProb           float64
	ASN2Prob           float64 // peer without 4-octet capability
	MPv4Prob           float64
	ImportKinds        []string // accept, rejectsome, rewrite, reject
	ExportKinds        []string
	MinSteps, MaxSteps int
	W                  map[string]int // step kind weights
	FragmentProb       float64
	IneligibleProb     float64
	MultiNLRIProb      float64
	RichAttrProb       float64
	LongPathProb       float64 // AS_SEQUENCE filled up to the 255-ASN segment limit (or just below)
	MixedUpdateProb    float64 // an announcing UPDATE also withdraws routes
	CheckpointEvery    int
	TailUS             int64
	BigGapProb         float64
	AggrChoices        []int64
	HoldChoices        []uint16
	NPrefixes          int
	ReconnectProb      float64
	SkewProb           float64
	NoShuffle          bool
}

// DefaultProfile is the base every property profile starts from.
func DefaultProfile() Profile {
	return Profile{
		MinPeers: 2, MaxPeers: 4,
		KindWeights:   map[string]int{"ebgp": 4, "rs": 1, "ibgp": 2, "rr": 2},
		V6Prob:        0.3,
		AddPathRXProb: 0.25, AddPathTXProb: 0.25,
		ImportKinds: []string{"accept"}, ExportKinds: []string{"accept"},
		MinSteps: 8, MaxSteps: 30,
		W:               map[string]int{"announce": 10, "withdraw": 4, "wait": 1},
		FragmentProb:    0.1,
		MultiNLRIProb:   0.3,
		RichAttrProb:    0.4,
		MixedUpdateProb: 0.12,
		CheckpointEvery: 6,
		TailUS:          2_000_000,
		BigGapProb:      0.05,
		AggrChoices:     []int64{5000, 5000, 20000, 100000},
		HoldChoices:     []uint16{90, 30, 9, 0, 180},
		NPrefixes:       6,
	}
}

type gen struct {
	r        *simrt.Rand
	prof     Profile
	plan     *Plan
	nextTag  uint32
	prefixes []Prefix
	pfx6     []Prefix
	// model of what each peer currently announces: peer -> key -> tag (generator side only,
	// used to make withdrawals meaningful; oracles never trust it)
	announced []map[viewKey]uint32
	lastAnn   []map[Prefix]AttrSpec // last eligible IPv4 announcement per peer and prefix (for "clone" steps)
	connected []bool
}

func sortPrefixes(ps []Prefix) {
	sort.Slice(ps, func(i, j int) bool { return ps[i].String() < ps[j].String() })
}

func pick[T any](r *simrt.Rand, xs []T) T { return xs[r.Intn(len(xs))] }

func weighted(r *simrt.Rand, w map[string]int, order []string) string {
	total := 0
	for _, k := range order {
		total += w[k]
	}
	if total == 0 {
		return order[0]
	}
	n := r.Intn(total)
	for _, k := range order {
		n -= w[k]
		if n < 0 {
			return k
		}
	}
	return order[0]
}

var stepOrder = []string{"announce", "withdraw", "wait", "peer_close", "peer_notify", "peer_silent", "fail_write", "stall", "clone",
	"import", "export", "dispose", "static_add", "static_del", "reconnect", "raw_garbage", "keepalive", "replace"}

func u32p(v uint32) *uint32 { return &v }
func u8p(v uint8) *uint8    { return &v }

// genPolicy draws a policy of the requested kind over the prefix pool.
func (g *gen) genPolicy(kind string) *PolicySpec {
	r := g.r
	// patterns never have length 0: whether an IPv4 default route "contains" IPv6 prefixes is a
	// question about prefix arithmetic (C15, not simulated), and import/export policies apply to
	// both families of a session
	var pool []Prefix
	for _, p := range g.prefixes {
		if p.Len >= 8 {
			pool = append(pool, p)
		}
	}
	switch kind {
	case "accept":
		return AcceptAll()
	case "reject":
		return RejectAll()
	case "rejectsome":
		p := pick(r, pool)
		m := &MatchSpec{Pfx: p, Kind: pick(r, []string{"exact", "orlonger", "longer", "range"})}
		if m.Kind == "range" {
			m.Min = p.Len
			m.Max = p.Len + uint8(r.Intn(9))
		}
		if r.Chance(0.5) && p.Len >= 12 {
			// widen the pattern so that it covers several pool prefixes
			m.Pfx = Prefix{V6: p.V6, Addr: p.Addr, Len: p.Len - uint8(1+r.Intn(int(p.Len)-7))}.Masked()
			if m.Kind == "exact" {
				m.Kind = "orlonger"
			}
		}
		return &PolicySpec{Terms: []TermSpec{{Match: m, Actions: []ActionSpec{{Kind: "reject"}}}, {Actions: []ActionSpec{{Kind: "accept"}}}}}
	case "rewrite":
		var terms []TermSpec
		n := 1 + r.Intn(2)
		for i := 0; i < n; i++ {
			var m *MatchSpec
			if r.Chance(0.6) {
				p := pick(r, pool)
				m = &MatchSpec{Pfx: p, Kind: pick(r, []string{"exact", "orlonger"})}
			}
			var acts []ActionSpec
			switch r.Intn(4) {
			case 0:
				acts = append(acts, ActionSpec{Kind: "lp", V: uint32(50 + 50*r.Intn(5))})
			case 1:
				acts = append(acts, ActionSpec{Kind: "med", V: uint32(10 * r.Intn(5))})
			case 2:
				acts = append(acts, ActionSpec{Kind: "prepend", V: uint32(64900 + r.Intn(3)), N: uint16(1 + r.Intn(2))})
			case 3:
				acts = append(acts, ActionSpec{Kind: "nh", V: 0x0a000a00 + uint32(r.Intn(4))})
			}
			if r.Chance(0.3) {
				acts = append(acts, ActionSpec{Kind: pick(r, []string{"accept", "reject"})})
			}
			terms = append(terms, TermSpec{Match: m, Actions: acts})
		}
		terms = append(terms, TermSpec{Actions: []ActionSpec{{Kind: "accept"}}})
		return &PolicySpec{Terms: terms, Split: r.Chance(0.35)}
	}
	return AcceptAll()
}

func (g *gen) genTopology() {
	r, pr := g.r, g.prof
	pl := g.plan
	pl.DUT = DUTCfg{RouterID: 0x0a0000fe, LocalAS: 65000}
	if r.Chance(0.3) {
		pl.DUT.ClusterID = 0x01010101
	}
	// prefix pool: a stem with nested lengths plus siblings
	stem := byte(20 + r.Intn(200))
	g.prefixes = []Prefix{
		P4(stem, 0, 0, 0, 8), P4(stem, 16, 0, 0, 12), P4(stem, 16, 1, 0, 24), P4(stem, 16, 1, 128, 25),
		P4(stem, 200, 0, 0, 16), P4(stem+1, 0, 0, 0, 8), P4(stem, 16, 1, 7, 32), P4(0, 0, 0, 0, 0),
	}
	if pr.NPrefixes > 0 && pr.NPrefixes < len(g.prefixes) {
		g.prefixes = g.prefixes[:pr.NPrefixes]
	}
	g.pfx6 = []Prefix{P6(0x20010db800000000|uint64(stem)<<16, 0, 48), P6(0x20010db800000000|uint64(stem)<<16, 0, 64),
		P6(0x20010db8ffff0000, 0x1, 128), P6(0x2a00000000000000, 0, 12)}
	n := pr.MinPeers + r.Intn(pr.MaxPeers-pr.MinPeers+1)
	kinds := []string{"ebgp", "rs", "ibgp", "rr"}
	for i := 0; i < n; i++ {
		kind := weighted(r, pr.KindWeights, kinds)
		pc := PeerCfg{
			Name: fmt.Sprintf("p%d", i+1), Addr: [4]byte{10, 0, 0, byte(i + 1)}, ID: 0x0a000001 + uint32(i),
			IPv4: true, PeerASN4: !r.Chance(pr.ASN2Prob),
			MinDelayUS: int64(50 + r.Intn(2000)), JitterUS: int64(r.Intn(3000)), ReplyDelayUS: int64(100 + r.Intn(5000)),
		}
		switch kind {
		case "ebgp":
			pc.AS = 65001 + uint32(i)
		case "rs":
			pc.AS = 65001 + uint32(i)
			pc.RSClient = true
		case "ibgp":
			pc.AS = pl.DUT.LocalAS
		case "rr":
			pc.AS = pl.DUT.LocalAS
			pc.RRClient = true
		}
		pc.DUTHold = pick(r, pr.HoldChoices)
		pc.PeerHold = pick(r, pr.HoldChoices)
		if pc.DUTHold == 0 && pc.PeerHold != 0 || r.Chance(0.7) {
			// mostly equal offers; zero only when both are zero to keep keepalive logic simple to reason about
			if pc.DUTHold == 0 {
				pc.PeerHold = 0
			} else if pc.PeerHold == 0 {
				pc.PeerHold = pc.DUTHold
			}
		}
		if r.Chance(pr.V6Prob) {
			pc.IPv6 = true
		}
		if r.Chance(pr.MPv4Prob) {
			pc.DUTAdvMPv4 = true
			pc.PeerMPv4 = true
		}
		if r.Chance(pr.AddPathRXProb) {
			pc.AddPathRX = true
			pc.PeerAddPath |= 2
		}
		if r.Chance(pr.AddPathTXProb) {
			pc.AddPathTX = uint(2 + r.Intn(3))
			pc.PeerAddPath |= 1
		}
		if pc.AS != pl.DUT.LocalAS && r.Chance(pr.RoleProb) {
			// compatible role pairs (RFC 9234 section 4.2); DUT config values: 1 provider 2 rs 3 rs-client 4 customer 5 peer
			pairs := [][2]uint8{{1, 3}, {4, 0}, {2, 2}, {3, 1}, {5, 4}}
			pp := pick(r, pairs)
			pc.DUTRole = pp[0]
			pc.PeerRole = u8p(pp[1])
			if r.Chance(0.25) {
				// role configured locally, none advertised by the peer (not strict): RFC 9234 does not apply
				pc.PeerRole = nil
			}
		}
		pc.Import = g.genPolicy(pick(r, pr.ImportKinds))
		pc.Export = g.genPolicy(pick(r, pr.ExportKinds))
		pl.Peers = append(pl.Peers, pc)
	}
	g.announced = make([]map[viewKey]uint32, n)
	g.lastAnn = make([]map[Prefix]AttrSpec, n)
	for i := range g.announced {
		g.announced[i] = map[viewKey]uint32{}
		g.lastAnn[i] = map[Prefix]AttrSpec{}
	}
	g.connected = make([]bool, n)
}

func (g *gen) gap() int64 {
	r := g.r
	switch {
	case r.Chance(g.prof.BigGapProb):
		return int64(1_000_000 + r.Intn(40_000_000))
	case r.Chance(0.35):
		return int64(r.Intn(3000)) // inside one aggregation window
	case r.Chance(0.5):
		return int64(3000 + r.Intn(60_000))
	default:
		return int64(60_000 + r.Intn(900_000))
	}
}

func (g *gen) tag() uint32 {
	g.nextTag++
	return 20000 + g.nextTag
}

// genAttrs draws attributes for an announcement by peer pi with a fresh unique tag.
func (g *gen) genAttrs(pi int) *AttrSpec {
	r := g.r
	pc := g.plan.Peers[pi]
	a := &AttrSpec{NextHop: 0x0a000000 | uint32(pc.Addr[3]), Origin: uint8(r.Intn(3))}
	var asns []uint32
	if pc.AS != g.plan.DUT.LocalAS {
		asns = append(asns, pc.AS)
	}
	for i := r.Intn(3); i > 0; i-- {
		asns = append(asns, uint32(100+r.Intn(50)))
	}
	if g.prof.LongPathProb > 0 && r.Chance(g.prof.LongPathProb) {
		// a segment at or right below the size limit: whoever prepends next must open a new one
		for n := pick(r, []int{253, 254, 254, 254}); len(asns) < n; {
			asns = append(asns, uint32(100+r.Intn(50)))
		}
	}
	asns = append(asns, g.tag())
	a.ASPath = []Segment{{Type: 2, ASNs: asns}}
	if pc.AS == g.plan.DUT.LocalAS {
		a.LocalPref = u32p(uint32(100 + 10*r.Intn(3)))
	}
	if rolesActive(pc) && r.Chance(0.4) {
		// eligible uses of OTC (RFC 9234 section 5): any value from a provider or RS, the peer's own AS from a peer
		switch *pc.PeerRole {
		case roleProvider, roleRS:
			a.OTC = u32p(64500 + uint32(r.Intn(3)))
		case rolePeer:
			a.OTC = u32p(pc.AS)
		}
	}
	if r.Chance(g.prof.RichAttrProb) {
		if r.Chance(0.15) {
			// an aggregate: an AS_SET in the path - in front when the neighbour adds no AS of its own
			// (iBGP), so that whoever prepends next has to open a new AS_SEQUENCE
			set := Segment{Type: 1, ASNs: []uint32{uint32(64700 + r.Intn(5)), uint32(64710 + r.Intn(5))}}
			if pc.AS == g.plan.DUT.LocalAS {
				a.ASPath = append([]Segment{set}, a.ASPath...)
			} else {
				seq := a.ASPath[0].ASNs
				a.ASPath = []Segment{{Type: 2, ASNs: seq[:1]}, set, {Type: 2, ASNs: seq[1:]}}
			}
		}
		if r.Chance(0.5) {
			a.MED = u32p(uint32(r.Intn(3) * 10))
		}
		if r.Chance(0.4) {
			a.Communities = []uint32{65000<<16 | uint32(r.Intn(100))}
			if r.Chance(0.3) && !g.avoidAPTrigger() {
				// one or both well-known communities, in any position and order
				wks := []uint32{pick(r, []uint32{CommNoExport, CommNoAdvertise})}
				if r.Chance(0.35) {
					wks = []uint32{CommNoExport, CommNoAdvertise}
					if r.Chance(0.5) {
						wks = []uint32{CommNoAdvertise, CommNoExport}
					}
				}
				if r.Chance(0.5) {
					a.Communities = append(wks, a.Communities...)
				} else {
					a.Communities = append(a.Communities, wks...)
				}
			}
		}
		if r.Chance(0.2) {
			a.LargeComms = []LargeCommunity{{65000, uint32(r.Intn(10)), uint32(r.Intn(10))}}
		}
		if r.Chance(0.15) {
			a.Unknown = []UnknownAttr{{Flags: 0xc0, Type: 200 + uint8(r.Intn(5)), Value: []byte{byte(r.Intn(256)), byte(r.Intn(256))}}}
		}
		if pc.AS == g.plan.DUT.LocalAS && r.Chance(0.3) {
			a.OriginatorID = u32p(0x0a0a0a00 + uint32(r.Intn(4)))
			a.ClusterList = []uint32{0x02020200 + uint32(r.Intn(4))}
		}
	}
	return a
}

func (g *gen) pickPrefixes(pi int, v6 bool) []Prefix {
	r := g.r
	pool := g.prefixes
	if v6 {
		pool = g.pfx6
	}
	n := 1
	if r.Chance(g.prof.MultiNLRIProb) {
		n = 2 + r.Intn(3)
	}
	seen := map[Prefix]bool{}
	var out []Prefix
	for i := 0; i < n; i++ {
		p := pick(r, pool)
		if !seen[p] {
			seen[p] = true
			out = append(out, p)
		}
	}
	return out
}

func (g *gen) chunks(n int) ([]int, int64) {
	r := g.r
	if !r.Chance(g.prof.FragmentProb) {
		return nil, 0
	}
	var ch []int
	switch r.Intn(3) {
	case 0:
		ch = []int{1 + r.Intn(18)} // cut inside the header
	case 1:
		ch = []int{19, 1 + r.Intn(8)}
	default:
		for i := 0; i < 4; i++ {
			ch = append(ch, 1+r.Intn(12))
		}
	}
	return ch, int64(r.Intn(20000))
}

func (g *gen) add(s Step) { g.plan.Steps = append(g.plan.Steps, s) }

func (g *gen) connectAll() {
	for i := range g.plan.Peers {
		g.add(Step{GapUS: int64(500 + g.r.Intn(3000)), Kind: "connect", Peer: i})
		g.connected[i] = true
	}
	g.add(Step{GapUS: 200_000 + int64(g.r.Intn(400_000)), Kind: "checkpoint"})
}

func (g *gen) stepAnnounce(pi int) {
	r := g.r
	if g.avoidAPTrigger() && g.plan.Peers[pi].AddPathTX > 0 {
		// add-path TX sessions stay receive-only unless the run explores the known trigger
		for k := range g.plan.Peers {
			if g.plan.Peers[k].AddPathTX == 0 {
				pi = k
				break
			}
		}
		if g.plan.Peers[pi].AddPathTX > 0 {
			return
		}
	}
	pc := g.plan.Peers[pi]
	v6 := pc.IPv6 && r.Chance(0.4)
	pf := g.pickPrefixes(pi, v6)
	st := Step{GapUS: g.gap(), Kind: "announce", Peer: pi, V6: v6, Pfx: pf, Attr: g.genAttrs(pi)}
	if !v6 && pc.PeerMPv4 && pc.DUTAdvMPv4 && r.Chance(0.5) {
		st.ForceMP = true
	}
	if (v6 || st.ForceMP) && r.Chance(0.2) {
		st.AlsoNH = true
	}
	if pc.AddPathRX {
		for range pf {
			st.PathIDs = append(st.PathIDs, uint32(r.Intn(4))) // 0 is a path identifier like any other
		}
	}
	if r.Chance(g.prof.IneligibleProb) {
		g.makeIneligible(pi, &st)
	}
	st.Chunks, st.ChunkGapUS = g.chunks(0)
	if r.Chance(g.prof.MixedUpdateProb) {
		// the same UPDATE also withdraws one or two routes of this family announced earlier
		// (withdrawn-routes field next to NLRI, or MP_UNREACH_NLRI next to MP_REACH_NLRI)
		var keys []viewKey
		for k := range g.announced[pi] {
			keys = append(keys, k)
		}
		sortViewKeys(keys)
		for _, k := range keys {
			inPf := false
			for _, p := range pf {
				if p == k.Pfx {
					inPf = true
				}
			}
			if inPf || k.Pfx.V6 != v6 || len(st.Wd) >= 2 || !r.Chance(0.6) {
				continue
			}
			st.Wd = append(st.Wd, k.Pfx)
			if pc.AddPathRX {
				st.WdIDs = append(st.WdIDs, k.PathID)
			}
			delete(g.announced[pi], k)
		}
		if !v6 && !st.ForceMP && r.Chance(0.3) {
			// the same prefix in WITHDRAWN ROUTES and NLRI of one UPDATE: RFC 4271 4.3 wants it
			// handled as if it were not withdrawn (the announcement is what holds afterwards)
			st.Wd = append(st.Wd, pf[0])
			if pc.AddPathRX {
				for len(st.WdIDs) < len(st.Wd)-1 {
					st.WdIDs = append(st.WdIDs, 0)
				}
				id := uint32(0)
				if len(st.PathIDs) > 0 {
					id = st.PathIDs[0]
				}
				st.WdIDs = append(st.WdIDs, id)
			}
		}
	}
	for i, p := range pf {
		id := uint32(0)
		if i < len(st.PathIDs) {
			id = st.PathIDs[i]
		}
		g.announced[pi][viewKey{p, id}] = st.Attr.Tag()
		if !v6 && st.Ineligible == "" && len(g.lastAnn) > pi {
			g.lastAnn[pi][p] = *st.Attr
		}
	}
	g.add(st)
}

// stepClone lets peer pi announce a prefix with the attributes another neighbour of the same AS
// announced for it, except for exactly one attribute (MED, a community, ORIGIN or LOCAL_PREF):
// two paths for one prefix that differ only outside the AS path (the two share their tag).
func (g *gen) stepClone(pi int) {
	r := g.r
	pc := g.plan.Peers[pi]
	var cands []int
	for pj, o := range g.plan.Peers {
		if pj != pi && o.AS == pc.AS && len(g.lastAnn[pj]) > 0 {
			cands = append(cands, pj)
		}
	}
	if pc.AddPathRX && len(g.lastAnn[pi]) > 0 && (len(cands) == 0 || r.Chance(0.6)) {
		// the same neighbour announces a second path for one of its prefixes under another path
		// identifier (everything the identifier hash of the export side sees from the session is equal)
		cands = []int{pi}
	}
	if len(cands) == 0 || !pc.IPv4 || (g.avoidAPTrigger() && pc.AddPathTX > 0) {
		// (add-path TX sessions stay receive-only unless the run explores known finding F-C08-1)
		g.stepAnnounce(pi)
		return
	}
	pj := pick(r, cands)
	var pfxs []Prefix
	for p := range g.lastAnn[pj] {
		pfxs = append(pfxs, p)
	}
	sortPrefixes(pfxs)
	pfx := pick(r, pfxs)
	a := g.lastAnn[pj][pfx]
	a.NextHop = 0x0a000000 | uint32(pc.Addr[3])
	a.Communities = append([]uint32(nil), a.Communities...)
	switch r.Intn(7) {
	case 5:
		// only ATOMIC_AGGREGATE differs
		a.AtomicAggr = !a.AtomicAggr
	case 6:
		// only an unrecognised optional transitive attribute differs
		a.Unknown = append([]UnknownAttr(nil), a.Unknown...)
		a.Unknown = append(a.Unknown, UnknownAttr{Flags: 0xc0, Type: 210 + uint8(r.Intn(3)), Value: []byte{byte(r.Intn(256))}})
	case 4:
		// only the OTC attribute differs (accepted from a neighbour without a role relation)
		o := uint32(64500 + r.Intn(3))
		if a.OTC != nil {
			o = *a.OTC + 1
		}
		a.OTC = &o
	case 0:
		m := uint32(7)
		if a.MED != nil {
			m = *a.MED + 1
		}
		a.MED = &m
	case 1:
		a.Communities = append(a.Communities, 65000<<16|uint32(200+r.Intn(5)))
	case 2:
		a.Origin = (a.Origin + 1) % 3
	case 3:
		if a.LocalPref != nil {
			lp := *a.LocalPref + 5
			a.LocalPref = &lp
		} else {
			m := uint32(3)
			a.MED = &m
		}
	}
	st := Step{GapUS: g.gap(), Kind: "announce", Peer: pi, Pfx: []Prefix{pfx}, Attr: &a, Label: "clone"}
	if pc.AddPathRX {
		st.PathIDs = []uint32{uint32(1 + r.Intn(3))}
		if pj == pi {
			// a path identifier this prefix is not announced under yet, if there is one
			for id := uint32(1); id <= 4; id++ {
				if _, used := g.announced[pi][viewKey{pfx, id}]; !used {
					st.PathIDs = []uint32{id}
					break
				}
			}
		}
	}
	id := uint32(0)
	if len(st.PathIDs) > 0 {
		id = st.PathIDs[0]
	}
	g.announced[pi][viewKey{pfx, id}] = a.Tag()
	g.add(st)
}

func (g *gen) stepWithdraw(pi int) {
	r := g.r
	pc := g.plan.Peers[pi]
	// prefer withdrawing something that is announced
	var keys []viewKey
	for k := range g.announced[pi] {
		keys = append(keys, k)
	}
	sortViewKeys(keys)
	var st Step
	if len(keys) > 0 && r.Chance(0.85) {
		k := pick(r, keys)
		st = Step{GapUS: g.gap(), Kind: "withdraw", Peer: pi, V6: k.Pfx.V6, Pfx: []Prefix{k.Pfx}}
		if pc.AddPathRX {
			st.PathIDs = []uint32{k.PathID}
		}
		delete(g.announced[pi], k)
		// maybe a second one of the same family
		if r.Chance(0.3) {
			for _, k2 := range keys {
				if k2 != k && k2.Pfx.V6 == k.Pfx.V6 && k2.Pfx != k.Pfx {
					st.Pfx = append(st.Pfx, k2.Pfx)
					if pc.AddPathRX {
						st.PathIDs = append(st.PathIDs, k2.PathID)
					}
					delete(g.announced[pi], k2)
					break
				}
			}
		}
	} else {
		v6 := pc.IPv6 && r.Chance(0.3)
		pool := g.prefixes
		if v6 {
			pool = g.pfx6
		}
		st = Step{GapUS: g.gap(), Kind: "withdraw", Peer: pi, V6: v6, Pfx: []Prefix{pick(r, pool)}}
		if pc.AddPathRX {
			st.PathIDs = []uint32{uint32(r.Intn(4))}
		}
	}
	if !st.V6 && pc.PeerMPv4 && pc.DUTAdvMPv4 && r.Chance(0.5) {
		st.ForceMP = true
	}
	st.Chunks, st.ChunkGapUS = g.chunks(0)
	g.add(st)
}

func sortViewKeys(ks []viewKey) {
	for i := 1; i < len(ks); i++ {
		for j := i; j > 0; j-- {
			a, b := ks[j-1], ks[j]
			if a.Pfx.String() > b.Pfx.String() || (a.Pfx == b.Pfx && a.PathID > b.PathID) {
				ks[j-1], ks[j] = ks[j], ks[j-1]
			} else {
				break
			}
		}
	}
}

// GenBase creates plan skeleton: simulator options and topology.
func newGen(prop string, seed uint64, prof Profile) *gen {
	r := simrt.NewRand(seed*0x9e3779b97f4a7c15 ^ simrt.Hash64(prop))
	g := &gen{r: r, prof: prof}
	g.plan = &Plan{Prop: prop, Engine: "bgpsim", Seed: seed, TailUS: prof.TailUS}
	g.plan.Sim = SimCfg{ShuffleTies: !prof.NoShuffle && r.Chance(0.8), ShuffleMaps: !prof.NoShuffle && r.Chance(0.8), AggrUS: pick(r, prof.AggrChoices)}
	if r.Chance(prof.SkewProb) {
		g.plan.Sim.SkewPPM = int64(r.Intn(10001)) - 5000
	}
	g.genTopology()
	// Known finding F-C08-1: on an add-path TX session, adding a path that may not be exported
	// (own path, NO_ADVERTISE, NO_EXPORT to eBGP) withdraws every path of the prefix. Most runs
	// with such sessions avoid the trigger so that other defects stay visible; a share explores it.
	hasAP := false
	for _, pc := range g.plan.Peers {
		if pc.AddPathTX > 0 {
			hasAP = true
		}
	}
	if hasAP && r.Chance(0.15) {
		g.plan.Params = map[string]int64{"ap_trigger": 1}
	}
	return g
}

func (g *gen) avoidAPTrigger() bool {
	if g.plan.Params["ap_trigger"] == 1 {
		return false
	}
	for _, pc := range g.plan.Peers {
		if pc.AddPathTX > 0 {
			return true
		}
	}
	return false
}

// workload appends the generic mixed workload.
func (g *gen) workload() {
	r, pr := g.r, g.prof
	n := pr.MinSteps + r.Intn(pr.MaxSteps-pr.MinSteps+1)
	sinceCP := 0
	for i := 0; i < n; i++ {
		kind := weighted(r, pr.W, stepOrder)
		pi := r.Intn(len(g.plan.Peers))
		switch kind {
		case "announce":
			g.stepAnnounce(pi)
		case "withdraw":
			g.stepWithdraw(pi)
		case "wait":
			g.add(Step{GapUS: g.gap() * 3, Kind: "wait"})
		case "keepalive":
			g.add(Step{GapUS: g.gap(), Kind: "keepalive", Peer: pi})
		case "peer_close":
			g.add(Step{GapUS: g.gap(), Kind: "peer_close", Peer: pi, On: r.Chance(0.5)})
			g.lost(pi)
		case "peer_notify":
			g.add(Step{GapUS: g.gap(), Kind: "peer_notify", Peer: pi, Code: 6, Sub: uint8(r.Intn(9))})
			g.lost(pi)
		case "peer_silent":
			g.add(Step{GapUS: g.gap(), Kind: "peer_silent", Peer: pi, On: true})
			hold := g.plan.Peers[pi].DUTHold
			if ph := g.plan.Peers[pi].PeerHold; ph < hold {
				hold = ph
			}
			if hold > 0 && r.Chance(0.4) {
				// the connection stops taking writes shortly before the hold timer runs out (often after
				// the DUT's last keepalive of the period): the NOTIFICATION of the expiry cannot be sent
				g.add(Step{GapUS: int64(hold) * 800_000, Kind: "wait", Label: "most-of-the-hold-time"})
				g.add(Step{GapUS: 1000, Kind: "fail_write", Peer: pi, N: 1})
				g.add(Step{GapUS: int64(hold)*200_000 + 2_500_000, Kind: "wait", Label: "hold-expiry"})
				g.lost(pi)
			} else if hold > 0 {
				g.add(Step{GapUS: int64(hold)*1_000_000 + 2_500_000, Kind: "wait", Label: "hold-expiry"})
				g.lost(pi)
			}
		case "fail_write":
			g.add(Step{GapUS: g.gap(), Kind: "fail_write", Peer: pi, N: 1 + r.Intn(2)})
		case "clone":
			g.stepClone(pi)
		case "stall":
			// the neighbour stops reading for a moment: the DUT's writes to it block in the middle of
			// whatever it is sending while route changes from the other neighbours keep arriving
			g.add(Step{GapUS: g.gap(), Kind: "block_write", Peer: pi, On: true})
			for k := 0; k < 1+r.Intn(4); k++ {
				pj := r.Intn(len(g.plan.Peers))
				if r.Chance(0.5) {
					g.stepAnnounce(pj)
				} else {
					g.stepWithdraw(pj)
				}
			}
			g.add(Step{GapUS: g.gap(), Kind: "block_write", Peer: pi, On: false})
		case "import":
			g.add(Step{GapUS: g.gap(), Kind: "import", Peer: pi, Policy: g.genPolicy(pick(r, []string{"accept", "rejectsome", "rewrite", "reject"}))})
		case "export":
			g.add(Step{GapUS: g.gap(), Kind: "export", Peer: pi, Policy: g.genPolicy(pick(r, []string{"accept", "rejectsome", "rewrite", "reject"}))})
		case "dispose":
			g.add(Step{GapUS: g.gap(), Kind: "dispose", Peer: pi})
			g.lost(pi)
		case "static_add":
			g.add(Step{GapUS: g.gap(), Kind: "static_add", Pfx: []Prefix{pick(r, g.staticPool())}, NH: 0x0a630000 + uint32(r.Intn(3))})
		case "static_del":
			g.add(Step{GapUS: g.gap(), Kind: "static_del", Pfx: []Prefix{pick(r, g.staticPool())}, NH: 0x0a630000 + uint32(r.Intn(3))})
		case "raw_garbage":
			g.add(g.garbageStep(pi))
			g.lost(pi)
		case "reconnect":
			if !g.connected[pi] {
				g.add(Step{GapUS: g.gap() + 100_000, Kind: "connect", Peer: pi})
				g.connected[pi] = true
			}
		}
		sinceCP++
		if pr.CheckpointEvery > 0 && sinceCP >= pr.CheckpointEvery {
			g.checkpoint()
			sinceCP = 0
		}
	}
	g.checkpoint()
}

func (g *gen) lost(pi int) {
	g.connected[pi] = false
	g.announced[pi] = map[viewKey]uint32{}
	g.lastAnn[pi] = map[Prefix]AttrSpec{}
	if g.r.Chance(g.prof.ReconnectProb) {
		g.add(Step{GapUS: 300_000 + int64(g.r.Intn(3_000_000)), Kind: "connect", Peer: pi})
		g.connected[pi] = true
	}
}

// checkpoint adds a quiescent observation point: long enough for aggregation and delivery.
func (g *gen) checkpoint() {
	aggr := g.plan.Sim.AggrUS
	if aggr == 0 {
		aggr = 5000
	}
	g.add(Step{GapUS: 4*aggr + 60_000 + int64(g.r.Intn(200_000)), Kind: "checkpoint"})
}

// makeIneligible turns an announcement into one that must never be installed, using
// only cases that are ineligible under every reading of the session state.
func (g *gen) makeIneligible(pi int, st *Step) {
	r := g.r
	pc := g.plan.Peers[pi]
	dut := g.plan.DUT
	ibgp := pc.AS == dut.LocalAS
	var opts []string
	opts = append(opts, "as_loop")
	if ibgp {
		opts = append(opts, "originator")
		if pc.RRClient {
			opts = append(opts, "cluster_loop")
		}
	} else {
		opts = append(opts, "empty_aspath")
		if rolesActive(pc) {
			pr := *pc.PeerRole
			if pr == roleCustomer || pr == roleRSClient || pr == rolePeer {
				opts = append(opts, "otc")
			}
		}
	}
	a := st.Attr
	tag := a.Tag()
	switch pick(r, opts) {
	case "as_loop":
		seg := a.ASPath[0]
		asns := append([]uint32(nil), seg.ASNs[:len(seg.ASNs)-1]...)
		localAS := dut.LocalAS
		if pc.LocalAS != 0 {
			localAS = pc.LocalAS // the receiving session's own local AS
		}
		switch {
		case len(asns) > 0 && r.Chance(0.3):
			// the loop shows only in a later segment: an aggregate's AS_SET
			a.ASPath = []Segment{{Type: 2, ASNs: asns}, {Type: 1, ASNs: []uint32{64990, localAS}}, {Type: 2, ASNs: []uint32{tag}}}
		case len(asns) > 0 && r.Chance(0.3):
			// ... or a second AS_SEQUENCE
			a.ASPath = []Segment{{Type: 2, ASNs: asns}, {Type: 2, ASNs: []uint32{localAS, tag}}}
		default:
			asns = append(asns, localAS, tag)
			a.ASPath = []Segment{{Type: 2, ASNs: asns}}
		}
		st.Ineligible = "local ASN in AS_PATH"
	case "originator":
		a.OriginatorID = u32p(dut.RouterID)
		if len(a.ClusterList) == 0 {
			a.ClusterList = []uint32{0x02020202}
		}
		st.Ineligible = "ORIGINATOR_ID is the local router id"
	case "cluster_loop":
		cid := dut.ClusterID
		if cid == 0 {
			cid = dut.RouterID
		}
		a.ClusterList = append([]uint32{0x03030303}, cid)
		if a.OriginatorID == nil {
			a.OriginatorID = u32p(0x0a0a0a09)
		}
		st.Ineligible = "local cluster id in CLUSTER_LIST"
	case "empty_aspath":
		a.ASPath = nil
		a.LargeComms = append(a.LargeComms, LargeCommunity{tagCommunityAdmin, 0, tag})
		st.Ineligible = "empty AS_PATH on eBGP session"
	case "otc":
		pr := *pc.PeerRole
		if pr == rolePeer {
			a.OTC = u32p(pc.AS + 7) // OTC from a peer must equal the peer's AS
		} else {
			a.OTC = u32p(pc.AS)
		}
		st.Ineligible = "OTC check fails for a route from a " + roleName(pr)
	}
}

// staticPool: prefixes used for redistributed static routes. They are disjoint from the BGP
// pool: a prefix holding both a static and a BGP path is the business of C02.
func (g *gen) staticPool() []Prefix {
	return []Prefix{P4(198, 51, 100, 0, 24), P4(198, 51, 100, 128, 25), P4(203, 0, 113, 0, 24)}
}

// garbageStep sends something a session in Established must answer with a teardown:
// a message the RFC 4271 error handling (section 6) covers unambiguously. Lengths stay
// within 19..4096 (framing beyond that is C21's subject).
func (g *gen) garbageStep(pi int) Step {
	r := g.r
	pc := g.plan.Peers[pi]
	var raw []byte
	label := ""
	switch r.Intn(5) {
	case 0:
		raw = EncodeKeepalive()
		raw[3] = 0 // marker not all ones
		label = "bad_marker"
	case 1:
		raw = EncodeKeepalive()
		raw[18] = 9
		label = "bad_type"
	case 2:
		raw = EncodeOpen(openSpecFor(pc))
		label = "open_in_established"
	case 3:
		// UPDATE whose total path attribute length exceeds the message
		raw = EncodeUpdate(UpdateSpec{Announce: []NLRI{{Prefix: pick(r, g.prefixes)}}, Attrs: g.genAttrs(pi).Attrs(false), ASN4: pc.PeerASN4})
		off := 19 + 2
		l := int(raw[off])<<8 | int(raw[off+1])
		l += 40
		raw[off], raw[off+1] = byte(l>>8), byte(l)
		label = "attr_len_beyond_message"
	default:
		raw = EncodeKeepalive()
		raw = append(raw, 1, 2, 3)
		raw[16], raw[17] = 0, byte(len(raw))
		label = "keepalive_with_body"
	}
	st := Step{GapUS: g.gap(), Kind: "raw", Peer: pi, Hex: hexEncode(raw), Label: label, Malformed: label}
	st.Chunks, st.ChunkGapUS = g.chunks(0)
	return st
}

func hexEncode(b []byte) string {
	const d = "0123456789abcdef"
	out := make([]byte, 0, 2*len(b))
	for _, x := range b {
		out = append(out, d[x>>4], d[x&15])
	}
	return string(out)
}

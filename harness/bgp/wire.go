package bgp

// Independent BGP wire codec (RFC 4271, 4760, 6793, 7911, 4456, 1997, 8092, 9234).
// Part of the trusted base of the harness; deliberately does not use bio-rd's packet
// package so that a change there cannot hide itself from the oracles.

import (
	"encoding/binary"
	"errors"
	"fmt"
	"sort"
	"strings"
)

const (
	MsgOpen         = 1
	MsgUpdate       = 2
	MsgNotification = 3
	MsgKeepalive    = 4

	AttrOrigin       = 1
	AttrASPath       = 2
	AttrNextHop      = 3
	AttrMED          = 4
	AttrLocalPref    = 5
	AttrAtomicAggr   = 6
	AttrAggregator   = 7
	AttrCommunities  = 8
	AttrOriginatorID = 9
	AttrClusterList  = 10
	AttrMPReach      = 14
	AttrMPUnreach    = 15
	AttrLargeComm    = 32
	AttrOTC          = 35

	CapMP       = 1
	CapRole     = 9
	CapASN4     = 65
	CapAddPath  = 69
	ASTrans     = 23456
	CommNoExport    = 0xFFFFFF01
	CommNoAdvertise = 0xFFFFFF02
)

// Prefix is an IP prefix: Addr is 4 or 16 bytes (network order, host bits zero), Len the mask length.
type Prefix struct {
	V6   bool
	Addr [16]byte
	Len  uint8
}

func P4(a, b, c, d byte, l uint8) Prefix {
	p := Prefix{Len: l}
	p.Addr[0], p.Addr[1], p.Addr[2], p.Addr[3] = a, b, c, d
	return p.Masked()
}

func P6(hi uint64, lo uint64, l uint8) Prefix {
	p := Prefix{V6: true, Len: l}
	binary.BigEndian.PutUint64(p.Addr[0:8], hi)
	binary.BigEndian.PutUint64(p.Addr[8:16], lo)
	return p.Masked()
}

func (p Prefix) bits() int {
	if p.V6 {
		return 128
	}
	return 32
}

// Masked clears host bits.
func (p Prefix) Masked() Prefix {
	n := p.bits() / 8
	for i := 0; i < n; i++ {
		keep := int(p.Len) - i*8
		switch {
		case keep >= 8:
		case keep <= 0:
			p.Addr[i] = 0
		default:
			p.Addr[i] &= byte(0xff << (8 - keep))
		}
	}
	for i := n; i < 16; i++ {
		p.Addr[i] = 0
	}
	return p
}

func (p Prefix) String() string {
	if !p.V6 {
		return fmt.Sprintf("%d.%d.%d.%d/%d", p.Addr[0], p.Addr[1], p.Addr[2], p.Addr[3], p.Len)
	}
	var sb strings.Builder
	for i := 0; i < 16; i += 2 {
		if i > 0 {
			sb.WriteByte(':')
		}
		fmt.Fprintf(&sb, "%x", uint16(p.Addr[i])<<8|uint16(p.Addr[i+1]))
	}
	fmt.Fprintf(&sb, "/%d", p.Len)
	return sb.String()
}

// Contains reports whether q is inside or equal to p (bit level).
func (p Prefix) Contains(q Prefix) bool {
	if p.V6 != q.V6 || q.Len < p.Len {
		return false
	}
	for i := 0; i < int(p.Len); i++ {
		if (p.Addr[i/8]>>(7-uint(i%8)))&1 != (q.Addr[i/8]>>(7-uint(i%8)))&1 {
			return false
		}
	}
	return true
}

// NLRI is a prefix with an optional add-path identifier.
type NLRI struct {
	Prefix Prefix
	PathID uint32
}

// Segment of an AS_PATH.
type Segment struct {
	Type uint8 // 1 set, 2 sequence
	ASNs []uint32
}

// LargeCommunity per RFC 8092.
type LargeCommunity struct{ G, L1, L2 uint32 }

// UnknownAttr is an attribute the codec does not interpret.
type UnknownAttr struct {
	Flags uint8
	Type  uint8
	Value []byte
}

// Attrs is the decoded attribute set of an UPDATE.
type Attrs struct {
	HasOrigin    bool
	Origin       uint8
	HasASPath    bool
	ASPath       []Segment
	HasNextHop   bool
	NextHop      [16]byte // 4 bytes used for classic NEXT_HOP
	NextHopV6    bool
	HasMED       bool
	MED          uint32
	HasLocalPref bool
	LocalPref    uint32
	AtomicAggr   bool
	Communities  []uint32
	HasOriginator bool
	OriginatorID uint32
	ClusterList  []uint32
	HasClusterList bool
	LargeComms   []LargeCommunity
	HasOTC       bool
	OTC          uint32
	Unknown      []UnknownAttr
}

// Update is a decoded UPDATE message.
type Update struct {
	Withdrawn   []NLRI
	Attrs       Attrs
	NLRI        []NLRI
	HasMPReach  bool
	MPReachAFI  uint16
	MPReachSAFI uint8
	MPReach     []NLRI
	HasMPUnreach bool
	MPUnreachAFI uint16
	MPUnreachSAFI uint8
	MPUnreach   []NLRI
	AttrLen     int
}

// Capability in an OPEN.
type Capability struct {
	Code  uint8
	Value []byte
}

// Open is a decoded OPEN message.
type Open struct {
	Version  uint8
	AS       uint16
	HoldTime uint16
	ID       uint32
	Caps     []Capability
	// decoded conveniences
	HasASN4  bool
	ASN4     uint32
	MP       map[uint16]bool   // AFI -> advertised (SAFI unicast)
	AddPath  map[uint16]uint8  // AFI -> send/receive bits
	HasRole  bool
	Role     uint8
	Roles    []uint8
}

// Notification message.
type Notification struct {
	Code, Subcode uint8
	Data          []byte
}

// Msg is any decoded message.
type Msg struct {
	Type   uint8
	Raw    []byte
	Open   *Open
	Update *Update
	Notif  *Notification
}

// DecodeOpts are the negotiated options needed to parse UPDATEs.
type DecodeOpts struct {
	ASN4      bool
	AddPathV4 bool
	AddPathV6 bool
}

func header(t uint8, body []byte) []byte {
	out := make([]byte, 19+len(body))
	for i := 0; i < 16; i++ {
		out[i] = 0xff
	}
	binary.BigEndian.PutUint16(out[16:18], uint16(19+len(body)))
	out[18] = t
	copy(out[19:], body)
	return out
}

// EncodeKeepalive builds a KEEPALIVE.
func EncodeKeepalive() []byte { return header(MsgKeepalive, nil) }

// EncodeNotification builds a NOTIFICATION.
func EncodeNotification(code, sub uint8, data []byte) []byte {
	return header(MsgNotification, append([]byte{code, sub}, data...))
}

// OpenSpec describes the OPEN a scripted peer sends.
type OpenSpec struct {
	Version  uint8
	AS       uint32 // real AS; encoded as AS_TRANS when > 65535
	AS16     *uint16 // explicit override of the 2-octet field
	HoldTime uint16
	ID       uint32
	ASN4     bool
	ASN4Val  *uint32 // explicit override of the capability value
	MPv4     bool
	MPv6     bool
	AddPath  map[uint16]uint8
	Role     *uint8
	ExtraRoles []uint8
	RawCaps  []Capability
}

// EncodeOpen builds an OPEN.
func EncodeOpen(o OpenSpec) []byte {
	var caps []byte
	addCap := func(code uint8, val []byte) {
		caps = append(caps, code, uint8(len(val)))
		caps = append(caps, val...)
	}
	if o.MPv4 {
		addCap(CapMP, []byte{0, 1, 0, 1})
	}
	if o.MPv6 {
		addCap(CapMP, []byte{0, 2, 0, 1})
	}
	if o.ASN4 {
		v := o.AS
		if o.ASN4Val != nil {
			v = *o.ASN4Val
		}
		b := make([]byte, 4)
		binary.BigEndian.PutUint32(b, v)
		addCap(CapASN4, b)
	}
	if len(o.AddPath) > 0 {
		var afis []int
		for a := range o.AddPath {
			afis = append(afis, int(a))
		}
		sort.Ints(afis)
		var v []byte
		for _, a := range afis {
			v = append(v, byte(a>>8), byte(a), 1, o.AddPath[uint16(a)])
		}
		addCap(CapAddPath, v)
	}
	if o.Role != nil {
		addCap(CapRole, []byte{*o.Role})
	}
	for _, r := range o.ExtraRoles {
		addCap(CapRole, []byte{r})
	}
	for _, c := range o.RawCaps {
		addCap(c.Code, c.Value)
	}
	var opt []byte
	if len(caps) > 0 {
		opt = append([]byte{2, uint8(len(caps))}, caps...)
	}
	as16 := uint16(o.AS)
	if o.AS > 65535 {
		as16 = ASTrans
	}
	if o.AS16 != nil {
		as16 = *o.AS16
	}
	ver := o.Version
	if ver == 0 {
		ver = 4
	}
	body := make([]byte, 10)
	body[0] = ver
	binary.BigEndian.PutUint16(body[1:3], as16)
	binary.BigEndian.PutUint16(body[3:5], o.HoldTime)
	binary.BigEndian.PutUint32(body[5:9], o.ID)
	body[9] = uint8(len(opt))
	body = append(body, opt...)
	return header(MsgOpen, body)
}

func encNLRI(n NLRI, addPath bool) []byte {
	var out []byte
	if addPath {
		b := make([]byte, 4)
		binary.BigEndian.PutUint32(b, n.PathID)
		out = append(out, b...)
	}
	out = append(out, n.Prefix.Len)
	nb := (int(n.Prefix.Len) + 7) / 8
	out = append(out, n.Prefix.Addr[:nb]...)
	return out
}

func encAttr(flags, typ uint8, val []byte) []byte {
	if len(val) > 255 {
		flags |= 0x10
		return append([]byte{flags, typ, byte(len(val) >> 8), byte(len(val))}, val...)
	}
	return append([]byte{flags, typ, byte(len(val))}, val...)
}

func u32(v uint32) []byte {
	b := make([]byte, 4)
	binary.BigEndian.PutUint32(b, v)
	return b
}

// UpdateSpec describes an UPDATE a scripted peer sends.
type UpdateSpec struct {
	Withdraw []NLRI // classic IPv4 withdrawn routes, or MP_UNREACH when V6/ForceMP
	Announce []NLRI
	Attrs    Attrs
	V6       bool
	ForceMP  bool // encode IPv4 through MP_REACH/MP_UNREACH
	ASN4     bool
	AddPath  bool
	AlsoNextHop bool // multiprotocol encoding plus a NEXT_HOP attribute
	// omit well-known attributes deliberately (malformed-input generation)
	OmitOrigin, OmitASPath, OmitNextHop bool
}

// EncodeAttrs serialises the attribute set (without MP attributes).
func EncodeAttrs(a Attrs, asn4 bool, classicNextHop bool) []byte {
	var out []byte
	if a.HasOrigin {
		out = append(out, encAttr(0x40, AttrOrigin, []byte{a.Origin})...)
	}
	if a.HasASPath {
		var v []byte
		for _, s := range a.ASPath {
			v = append(v, s.Type, uint8(len(s.ASNs)))
			for _, as := range s.ASNs {
				if asn4 {
					v = append(v, u32(as)...)
				} else {
					x := as
					if x > 65535 {
						x = ASTrans
					}
					v = append(v, byte(x>>8), byte(x))
				}
			}
		}
		out = append(out, encAttr(0x40, AttrASPath, v)...)
	}
	if a.HasNextHop && classicNextHop {
		out = append(out, encAttr(0x40, AttrNextHop, a.NextHop[:4])...)
	}
	if a.HasMED {
		out = append(out, encAttr(0x80, AttrMED, u32(a.MED))...)
	}
	if a.HasLocalPref {
		out = append(out, encAttr(0x40, AttrLocalPref, u32(a.LocalPref))...)
	}
	if a.AtomicAggr {
		out = append(out, encAttr(0x40, AttrAtomicAggr, nil)...)
	}
	if len(a.Communities) > 0 {
		var v []byte
		for _, c := range a.Communities {
			v = append(v, u32(c)...)
		}
		out = append(out, encAttr(0xc0, AttrCommunities, v)...)
	}
	if a.HasOriginator {
		out = append(out, encAttr(0x80, AttrOriginatorID, u32(a.OriginatorID))...)
	}
	if a.HasClusterList {
		var v []byte
		for _, c := range a.ClusterList {
			v = append(v, u32(c)...)
		}
		out = append(out, encAttr(0x80, AttrClusterList, v)...)
	}
	if len(a.LargeComms) > 0 {
		var v []byte
		for _, c := range a.LargeComms {
			v = append(v, u32(c.G)...)
			v = append(v, u32(c.L1)...)
			v = append(v, u32(c.L2)...)
		}
		out = append(out, encAttr(0xc0, AttrLargeComm, v)...)
	}
	if a.HasOTC {
		out = append(out, encAttr(0xc0, AttrOTC, u32(a.OTC))...)
	}
	for _, u := range a.Unknown {
		out = append(out, encAttr(u.Flags&^0x10, u.Type, u.Value)...)
	}
	return out
}

// EncodeUpdate builds an UPDATE.
func EncodeUpdate(u UpdateSpec) []byte {
	mp := u.V6 || u.ForceMP
	var wd, attrs, nlri []byte
	a := u.Attrs
	if u.OmitOrigin {
		a.HasOrigin = false
	}
	if u.OmitASPath {
		a.HasASPath = false
	}
	if u.OmitNextHop {
		a.HasNextHop = false
	}
	if !mp {
		for _, n := range u.Withdraw {
			wd = append(wd, encNLRI(n, u.AddPath)...)
		}
		for _, n := range u.Announce {
			nlri = append(nlri, encNLRI(n, u.AddPath)...)
		}
		if len(u.Announce) > 0 {
			attrs = EncodeAttrs(a, u.ASN4, true)
		}
	} else {
		afi := uint16(1)
		if u.V6 {
			afi = 2
		}
		if len(u.Announce) > 0 {
			var v []byte
			v = append(v, byte(afi>>8), byte(afi), 1)
			if a.HasNextHop {
				if u.V6 || a.NextHopV6 {
					v = append(v, 16)
					v = append(v, a.NextHop[:16]...)
				} else {
					v = append(v, 4)
					v = append(v, a.NextHop[:4]...)
				}
			} else {
				v = append(v, 0)
			}
			v = append(v, 0) // reserved
			for _, n := range u.Announce {
				v = append(v, encNLRI(n, u.AddPath)...)
			}
			attrs = append(attrs, encAttr(0x80, AttrMPReach, v)...)
			if u.AlsoNextHop {
				b := a
				b.NextHop = [16]byte{10, 9, 9, 9}
				b.NextHopV6 = false
				attrs = append(attrs, EncodeAttrs(b, u.ASN4, true)...)
			} else {
				attrs = append(attrs, EncodeAttrs(a, u.ASN4, false)...)
			}
		}
		if len(u.Withdraw) > 0 {
			var v []byte
			v = append(v, byte(afi>>8), byte(afi), 1)
			for _, n := range u.Withdraw {
				v = append(v, encNLRI(n, u.AddPath)...)
			}
			attrs = append(attrs, encAttr(0x80, AttrMPUnreach, v)...)
		}
	}
	body := make([]byte, 0, 4+len(wd)+len(attrs)+len(nlri))
	body = append(body, byte(len(wd)>>8), byte(len(wd)))
	body = append(body, wd...)
	body = append(body, byte(len(attrs)>>8), byte(len(attrs)))
	body = append(body, attrs...)
	body = append(body, nlri...)
	return header(MsgUpdate, body)
}

var ErrShort = errors.New("short")

// SplitStream cuts complete messages off the front of buf. It returns the messages, the
// remaining bytes and an error if the stream is not a BGP stream (bad marker/length).
func SplitStream(buf []byte) (msgs [][]byte, rest []byte, err error) {
	for {
		if len(buf) < 19 {
			return msgs, buf, nil
		}
		for i := 0; i < 16; i++ {
			if buf[i] != 0xff {
				return msgs, buf, fmt.Errorf("bad marker")
			}
		}
		l := int(binary.BigEndian.Uint16(buf[16:18]))
		if l < 19 || l > 4096 {
			return msgs, buf, fmt.Errorf("bad length %d", l)
		}
		if len(buf) < l {
			return msgs, buf, nil
		}
		msgs = append(msgs, buf[:l:l])
		buf = buf[l:]
	}
}

func decNLRIs(b []byte, v6, addPath bool) ([]NLRI, error) {
	var out []NLRI
	for len(b) > 0 {
		var n NLRI
		if addPath {
			if len(b) < 4 {
				return nil, fmt.Errorf("nlri: short path id")
			}
			n.PathID = binary.BigEndian.Uint32(b)
			b = b[4:]
		}
		if len(b) < 1 {
			return nil, fmt.Errorf("nlri: short")
		}
		l := b[0]
		b = b[1:]
		max := uint8(32)
		if v6 {
			max = 128
		}
		if l > max {
			return nil, fmt.Errorf("nlri: prefix length %d", l)
		}
		nb := (int(l) + 7) / 8
		if len(b) < nb {
			return nil, fmt.Errorf("nlri: truncated prefix")
		}
		n.Prefix = Prefix{V6: v6, Len: l}
		copy(n.Prefix.Addr[:], b[:nb])
		b = b[nb:]
		out = append(out, n)
	}
	return out, nil
}

// DecodeMsg parses one complete message.
func DecodeMsg(raw []byte, o DecodeOpts) (*Msg, error) {
	if len(raw) < 19 {
		return nil, ErrShort
	}
	m := &Msg{Type: raw[18], Raw: raw}
	body := raw[19:]
	switch m.Type {
	case MsgKeepalive:
		if len(body) != 0 {
			return nil, fmt.Errorf("keepalive with body")
		}
	case MsgNotification:
		if len(body) < 2 {
			return nil, fmt.Errorf("short notification")
		}
		m.Notif = &Notification{Code: body[0], Subcode: body[1], Data: body[2:]}
	case MsgOpen:
		op, err := decodeOpen(body)
		if err != nil {
			return nil, err
		}
		m.Open = op
	case MsgUpdate:
		u, err := decodeUpdate(body, o)
		if err != nil {
			return nil, err
		}
		m.Update = u
	default:
		return nil, fmt.Errorf("unknown type %d", m.Type)
	}
	return m, nil
}

func decodeOpen(b []byte) (*Open, error) {
	if len(b) < 10 {
		return nil, fmt.Errorf("short open")
	}
	o := &Open{Version: b[0], AS: binary.BigEndian.Uint16(b[1:3]), HoldTime: binary.BigEndian.Uint16(b[3:5]),
		ID: binary.BigEndian.Uint32(b[5:9]), MP: map[uint16]bool{}, AddPath: map[uint16]uint8{}}
	ol := int(b[9])
	opt := b[10:]
	if len(opt) != ol {
		return nil, fmt.Errorf("open: opt len mismatch")
	}
	for len(opt) > 0 {
		if len(opt) < 2 || len(opt) < 2+int(opt[1]) {
			return nil, fmt.Errorf("open: truncated param")
		}
		pt, pl := opt[0], int(opt[1])
		pv := opt[2 : 2+pl]
		opt = opt[2+pl:]
		if pt != 2 {
			continue
		}
		for len(pv) > 0 {
			if len(pv) < 2 || len(pv) < 2+int(pv[1]) {
				return nil, fmt.Errorf("open: truncated capability")
			}
			c := Capability{Code: pv[0], Value: append([]byte(nil), pv[2:2+int(pv[1])]...)}
			pv = pv[2+int(pv[1]):]
			o.Caps = append(o.Caps, c)
			switch c.Code {
			case CapASN4:
				if len(c.Value) == 4 {
					o.HasASN4 = true
					o.ASN4 = binary.BigEndian.Uint32(c.Value)
				}
			case CapMP:
				if len(c.Value) == 4 && c.Value[3] == 1 {
					o.MP[binary.BigEndian.Uint16(c.Value[0:2])] = true
				}
			case CapAddPath:
				for v := c.Value; len(v) >= 4; v = v[4:] {
					if v[2] == 1 {
						o.AddPath[binary.BigEndian.Uint16(v[0:2])] = v[3]
					}
				}
			case CapRole:
				if len(c.Value) == 1 {
					o.HasRole = true
					o.Role = c.Value[0]
					o.Roles = append(o.Roles, c.Value[0])
				}
			}
		}
	}
	return o, nil
}

func decodeUpdate(b []byte, o DecodeOpts) (*Update, error) {
	u := &Update{}
	if len(b) < 4 {
		return nil, fmt.Errorf("update: short")
	}
	wl := int(binary.BigEndian.Uint16(b[0:2]))
	if len(b) < 2+wl+2 {
		return nil, fmt.Errorf("update: withdrawn length")
	}
	var err error
	u.Withdrawn, err = decNLRIs(b[2:2+wl], false, o.AddPathV4)
	if err != nil {
		return nil, fmt.Errorf("update withdrawn: %w", err)
	}
	al := int(binary.BigEndian.Uint16(b[2+wl : 4+wl]))
	if len(b) < 4+wl+al {
		return nil, fmt.Errorf("update: attribute length")
	}
	u.AttrLen = al
	ab := b[4+wl : 4+wl+al]
	seen := map[uint8]bool{}
	for len(ab) > 0 {
		if len(ab) < 3 {
			return nil, fmt.Errorf("attr: short header")
		}
		flags, typ := ab[0], ab[1]
		var l, hl int
		if flags&0x10 != 0 {
			if len(ab) < 4 {
				return nil, fmt.Errorf("attr: short ext header")
			}
			l, hl = int(binary.BigEndian.Uint16(ab[2:4])), 4
		} else {
			l, hl = int(ab[2]), 3
		}
		if len(ab) < hl+l {
			return nil, fmt.Errorf("attr %d: length %d beyond attributes", typ, l)
		}
		v := ab[hl : hl+l]
		ab = ab[hl+l:]
		if seen[typ] {
			return nil, fmt.Errorf("attr %d: duplicate", typ)
		}
		seen[typ] = true
		a := &u.Attrs
		switch typ {
		case AttrOrigin:
			if l != 1 {
				return nil, fmt.Errorf("origin length")
			}
			a.HasOrigin, a.Origin = true, v[0]
		case AttrASPath:
			a.HasASPath = true
			as := 2
			if o.ASN4 {
				as = 4
			}
			for len(v) > 0 {
				if len(v) < 2 || len(v) < 2+int(v[1])*as {
					return nil, fmt.Errorf("as_path truncated")
				}
				s := Segment{Type: v[0]}
				n := int(v[1])
				v = v[2:]
				for i := 0; i < n; i++ {
					if as == 4 {
						s.ASNs = append(s.ASNs, binary.BigEndian.Uint32(v))
					} else {
						s.ASNs = append(s.ASNs, uint32(binary.BigEndian.Uint16(v)))
					}
					v = v[as:]
				}
				a.ASPath = append(a.ASPath, s)
			}
		case AttrNextHop:
			if l != 4 {
				return nil, fmt.Errorf("next_hop length")
			}
			a.HasNextHop = true
			copy(a.NextHop[:], v)
		case AttrMED:
			if l != 4 {
				return nil, fmt.Errorf("med length")
			}
			a.HasMED, a.MED = true, binary.BigEndian.Uint32(v)
		case AttrLocalPref:
			if l != 4 {
				return nil, fmt.Errorf("local_pref length")
			}
			a.HasLocalPref, a.LocalPref = true, binary.BigEndian.Uint32(v)
		case AttrAtomicAggr:
			if l != 0 {
				return nil, fmt.Errorf("atomic_aggregate length")
			}
			a.AtomicAggr = true
		case AttrCommunities:
			if l%4 != 0 {
				return nil, fmt.Errorf("communities length")
			}
			for ; len(v) > 0; v = v[4:] {
				a.Communities = append(a.Communities, binary.BigEndian.Uint32(v))
			}
		case AttrOriginatorID:
			if l != 4 {
				return nil, fmt.Errorf("originator length")
			}
			a.HasOriginator, a.OriginatorID = true, binary.BigEndian.Uint32(v)
		case AttrClusterList:
			if l%4 != 0 {
				return nil, fmt.Errorf("cluster_list length")
			}
			a.HasClusterList = true
			for ; len(v) > 0; v = v[4:] {
				a.ClusterList = append(a.ClusterList, binary.BigEndian.Uint32(v))
			}
		case AttrLargeComm:
			if l%12 != 0 {
				return nil, fmt.Errorf("large communities length")
			}
			for ; len(v) > 0; v = v[12:] {
				a.LargeComms = append(a.LargeComms, LargeCommunity{binary.BigEndian.Uint32(v), binary.BigEndian.Uint32(v[4:]), binary.BigEndian.Uint32(v[8:])})
			}
		case AttrOTC:
			if l != 4 {
				return nil, fmt.Errorf("otc length")
			}
			a.HasOTC, a.OTC = true, binary.BigEndian.Uint32(v)
		case AttrMPReach:
			if l < 5 {
				return nil, fmt.Errorf("mp_reach short")
			}
			u.HasMPReach = true
			u.MPReachAFI, u.MPReachSAFI = binary.BigEndian.Uint16(v), v[2]
			nhl := int(v[3])
			if len(v) < 4+nhl+1 {
				return nil, fmt.Errorf("mp_reach next hop")
			}
			if nhl == 4 || nhl == 16 || nhl == 32 {
				a.HasNextHop = true
				a.NextHopV6 = nhl != 4
				copy(a.NextHop[:], v[4:4+min(nhl, 16)])
			}
			rest := v[4+nhl+1:]
			ap := (u.MPReachAFI == 1 && o.AddPathV4) || (u.MPReachAFI == 2 && o.AddPathV6)
			u.MPReach, err = decNLRIs(rest, u.MPReachAFI == 2, ap)
			if err != nil {
				return nil, fmt.Errorf("mp_reach: %w", err)
			}
		case AttrMPUnreach:
			if l < 3 {
				return nil, fmt.Errorf("mp_unreach short")
			}
			u.HasMPUnreach = true
			u.MPUnreachAFI, u.MPUnreachSAFI = binary.BigEndian.Uint16(v), v[2]
			ap := (u.MPUnreachAFI == 1 && o.AddPathV4) || (u.MPUnreachAFI == 2 && o.AddPathV6)
			u.MPUnreach, err = decNLRIs(v[3:], u.MPUnreachAFI == 2, ap)
			if err != nil {
				return nil, fmt.Errorf("mp_unreach: %w", err)
			}
		default:
			a.Unknown = append(a.Unknown, UnknownAttr{Flags: flags, Type: typ, Value: append([]byte(nil), v...)})
		}
	}
	u.NLRI, err = decNLRIs(b[4+wl+al:], false, o.AddPathV4)
	if err != nil {
		return nil, fmt.Errorf("update nlri: %w", err)
	}
	return u, nil
}

func min(a, b int) int {
	if a < b {
		return a
	}
	return b
}

// MarshalText renders the prefix as text (also makes it usable as a JSON map key).
func (p Prefix) MarshalText() ([]byte, error) { return []byte(p.String()), nil }

// UnmarshalText parses the output of String.
func (p *Prefix) UnmarshalText(b []byte) error {
	s := string(b)
	slash := strings.LastIndexByte(s, '/')
	if slash < 0 {
		return fmt.Errorf("bad prefix %q", s)
	}
	var l int
	if _, err := fmt.Sscanf(s[slash+1:], "%d", &l); err != nil {
		return err
	}
	addr := s[:slash]
	*p = Prefix{Len: uint8(l)}
	if strings.Contains(addr, ":") {
		p.V6 = true
		parts := strings.Split(addr, ":")
		if len(parts) != 8 {
			return fmt.Errorf("bad v6 prefix %q", s)
		}
		for i, part := range parts {
			var v uint32
			if _, err := fmt.Sscanf(part, "%x", &v); err != nil {
				return err
			}
			p.Addr[2*i], p.Addr[2*i+1] = byte(v>>8), byte(v)
		}
		return nil
	}
	var a, b2, c, d int
	if _, err := fmt.Sscanf(addr, "%d.%d.%d.%d", &a, &b2, &c, &d); err != nil {
		return err
	}
	p.Addr[0], p.Addr[1], p.Addr[2], p.Addr[3] = byte(a), byte(b2), byte(c), byte(d)
	return nil
}

package bgp

import (
	"fmt"

	"verif.local/simrt"
)

// Structured mutations of valid UPDATE messages for C21 (hostile byte streams): one field of one
// path attribute is changed - its length, the length octets inside its value (AS_PATH segment
// count, MP_REACH next-hop length, NLRI prefix lengths) or its value is cut short - and the
// enclosing lengths (attribute, total path attribute length, message) are either kept consistent
// with the new content or left as they were. Nothing is expected of the answer except what C21
// states for every byte stream: no crash, no wedge, the other session untouched.

type attrPos struct {
	off    int // offset of the flags octet in the message
	code   uint8
	hdrLen int // 3 or 4
	valLen int
}

// walkAttrs lists the path attributes of a well-formed UPDATE.
func walkAttrs(raw []byte) (attrs []attrPos, attrStart, attrEnd int, ok bool) {
	if len(raw) < 23 || raw[18] != 2 {
		return nil, 0, 0, false
	}
	wl := int(raw[19])<<8 | int(raw[20])
	p := 21 + wl
	if p+2 > len(raw) {
		return nil, 0, 0, false
	}
	tl := int(raw[p])<<8 | int(raw[p+1])
	attrStart = p + 2
	attrEnd = attrStart + tl
	if attrEnd > len(raw) {
		return nil, 0, 0, false
	}
	for q := attrStart; q < attrEnd; {
		if q+3 > attrEnd {
			return nil, 0, 0, false
		}
		a := attrPos{off: q, code: raw[q+1], hdrLen: 3}
		if raw[q]&0x10 != 0 {
			if q+4 > attrEnd {
				return nil, 0, 0, false
			}
			a.hdrLen = 4
			a.valLen = int(raw[q+2])<<8 | int(raw[q+3])
		} else {
			a.valLen = int(raw[q+2])
		}
		if q+a.hdrLen+a.valLen > attrEnd {
			return nil, 0, 0, false
		}
		attrs = append(attrs, a)
		q += a.hdrLen + a.valLen
	}
	return attrs, attrStart, attrEnd, true
}

// replaceAttrValue rebuilds the message with attribute a carrying val, all enclosing lengths consistent.
func replaceAttrValue(raw []byte, a attrPos, val []byte) []byte {
	out := append([]byte(nil), raw[:a.off]...)
	flags := raw[a.off]
	if len(val) > 255 {
		flags |= 0x10
	}
	out = append(out, flags, a.code)
	if flags&0x10 != 0 {
		out = append(out, byte(len(val)>>8), byte(len(val)))
	} else {
		out = append(out, byte(len(val)))
	}
	out = append(out, val...)
	out = append(out, raw[a.off+a.hdrLen+a.valLen:]...)
	// total path attribute length and message length
	wl := int(raw[19])<<8 | int(raw[20])
	p := 21 + wl
	tl := int(raw[p])<<8 | int(raw[p+1])
	tl += len(out) - len(raw)
	if tl < 0 || len(out) > 65535 {
		return raw
	}
	out[p], out[p+1] = byte(tl>>8), byte(tl)
	out[16], out[17] = byte(len(out)>>8), byte(len(out))
	return out
}

// richUpdate builds a valid UPDATE with many attributes; v6 = MP_REACH_NLRI for IPv6.
func richUpdate(r *simrt.Rand, pc PeerCfg, v6 bool, mpV4 bool) []byte {
	asns := []uint32{}
	if pc.AS != 65000 {
		asns = append(asns, pc.AS)
	}
	for i := r.Intn(3); i >= 0; i-- {
		asns = append(asns, uint32(64600+r.Intn(100)))
	}
	at := AttrSpec{ASPath: []Segment{{2, asns}}, NextHop: 0x0a000000 | uint32(pc.Addr[3]), Origin: uint8(r.Intn(3))}
	if r.Chance(0.3) {
		at.ASPath = append(at.ASPath, Segment{1, []uint32{64700, 64701}})
	}
	if pc.AS == 65000 || r.Chance(0.3) {
		at.LocalPref = u32p(100)
	}
	if r.Chance(0.5) {
		at.MED = u32p(uint32(r.Intn(100)))
	}
	if r.Chance(0.5) {
		at.Communities = []uint32{0xfde80001, 0xfde80002}
	}
	if r.Chance(0.4) {
		at.LargeComms = []LargeCommunity{{65000, 1, 2}}
	}
	if pc.AS == 65000 && r.Chance(0.4) {
		at.OriginatorID = u32p(0x0a0a0a09)
		at.ClusterList, at.HasClusterList = []uint32{0x02020202, 0x03030303}, true
	}
	if r.Chance(0.2) {
		at.AtomicAggr = true
	}
	if r.Chance(0.4) {
		// attributes a speaker may carry without acting on them: AS4_PATH (17), AS4_AGGREGATOR (18),
		// and codes nobody knows, optional transitive, well-formed
		switch r.Intn(4) {
		case 0:
			at.Unknown = append(at.Unknown, UnknownAttr{Flags: 0xc0, Type: 18, Value: []byte{0, 0, 0xfd, 0xe8}})
		case 1:
			at.Unknown = append(at.Unknown, UnknownAttr{Flags: 0xc0, Type: 18, Value: []byte{0, 0, 0xfd, 0xe8, 10, 0, 0, 1}})
		case 2:
			at.Unknown = append(at.Unknown, UnknownAttr{Flags: 0xc0, Type: 17, Value: []byte{2, 1, 0, 0, 0xfd, 0xe9}})
		default:
			at.Unknown = append(at.Unknown, UnknownAttr{Flags: 0xc0, Type: uint8(40 + r.Intn(200)), Value: []byte{1, 2, 3}})
		}
	}
	u := UpdateSpec{ASN4: pc.PeerASN4, V6: v6, ForceMP: mpV4 && !v6, Attrs: at.Attrs(v6)}
	if v6 {
		u.Announce = []NLRI{{Prefix: P6(0x20010db800990000, 0, 48)}, {Prefix: P6(0x20010db800990001, 0, 64)}}
		if r.Chance(0.3) {
			u.Withdraw = []NLRI{{Prefix: P6(0x20010db800aa0000, 0, 48)}}
		}
	} else {
		u.Announce = []NLRI{{Prefix: P4(192, 0, 2, 0, 24)}, {Prefix: P4(192, 0, 2, 128, 25)}}
		if r.Chance(0.3) {
			u.Withdraw = []NLRI{{Prefix: P4(198, 18, 7, 0, 24)}}
		}
	}
	return EncodeUpdate(u)
}

// mutateUpdateField applies one structured mutation; ok=false if this draw found nothing to change.
func mutateUpdateField(r *simrt.Rand, raw []byte) (out []byte, what string, ok bool) {
	attrs, _, _, okw := walkAttrs(raw)
	if !okw || len(attrs) == 0 {
		return nil, "", false
	}
	a := pick(r, attrs)
	// MP attributes are the deepest decoders: prefer them when present
	for _, x := range attrs {
		if (x.code == 14 || x.code == 15) && r.Chance(0.5) {
			a = x
		}
	}
	val := append([]byte(nil), raw[a.off+a.hdrLen:a.off+a.hdrLen+a.valLen]...)
	switch k := r.Intn(7); {
	case k == 0:
		// declared length changed, content and enclosing lengths untouched
		out = append([]byte(nil), raw...)
		nl := pick(r, []int{0, 1, a.valLen - 1, a.valLen + 1, a.valLen + 7, 255})
		if nl < 0 || nl == a.valLen {
			return nil, "", false
		}
		if a.hdrLen == 4 {
			out[a.off+2], out[a.off+3] = byte(nl>>8), byte(nl)
		} else {
			out[a.off+2] = byte(nl)
		}
		return out, fmt.Sprintf("attribute %d: declared length %d -> %d, content unchanged", a.code, a.valLen, nl), true
	case k == 1:
		// value cut short, every enclosing length consistent
		if len(val) == 0 {
			return nil, "", false
		}
		n := r.Intn(len(val))
		return replaceAttrValue(raw, a, val[:n]), fmt.Sprintf("attribute %d: value cut from %d to %d octets (lengths consistent)", a.code, len(val), n), true
	case k == 2:
		// value extended with octets, lengths consistent
		ext := make([]byte, 1+r.Intn(20))
		for i := range ext {
			ext[i] = byte(r.Uint64())
		}
		return replaceAttrValue(raw, a, append(val, ext...)), fmt.Sprintf("attribute %d: %d octets appended to the value (lengths consistent)", a.code, len(ext)), true
	case k <= 4 && a.code == 14 && len(val) >= 5:
		// MP_REACH_NLRI: AFI(2) SAFI(1) next-hop length(1) next hop ... reserved(1) NLRI
		nhl := int(val[3])
		switch r.Intn(3) {
		case 0:
			// another next-hop length, rest untouched
			val[3] = pick(r, []byte{0, 1, 4, 12, 15, 16, 17, 24, 31, 32, 33, 48, 255})
			return replaceAttrValue(raw, a, val), fmt.Sprintf("MP_REACH_NLRI: next-hop length %d -> %d, content unchanged", nhl, val[3]), true
		case 1:
			// next-hop length 32 (global + link-local) with fewer than 32 octets following
			val[3] = 32
			keep := 4 + 16 + r.Intn(16)
			if keep > len(val) {
				keep = len(val)
			}
			return replaceAttrValue(raw, a, val[:keep]), fmt.Sprintf("MP_REACH_NLRI: next-hop length 32 with %d octets after it (lengths consistent)", keep-4), true
		default:
			// the attribute ends inside the next hop / right after it
			keep := 4 + r.Intn(nhl+2)
			if keep > len(val) {
				keep = len(val)
			}
			return replaceAttrValue(raw, a, val[:keep]), fmt.Sprintf("MP_REACH_NLRI: value ends %d octets after the next-hop length (lengths consistent)", keep-4), true
		}
	case k <= 4 && a.code == 15 && len(val) >= 3:
		// MP_UNREACH_NLRI: AFI SAFI NLRI...: prefix length octet changed
		if len(val) > 3 {
			val[3] = pick(r, []byte{0, 33, 64, 129, 200, 255})
			return replaceAttrValue(raw, a, val), fmt.Sprintf("MP_UNREACH_NLRI: first prefix length -> %d", val[3]), true
		}
		return replaceAttrValue(raw, a, val[:r.Intn(3)]), "MP_UNREACH_NLRI: cut inside AFI/SAFI", true
	case k <= 4 && a.code == 2 && len(val) >= 2:
		// AS_PATH: segment type / count
		if r.Chance(0.5) {
			val[1] = pick(r, []byte{0, val[1] + 1, val[1] + 9, 255})
			return replaceAttrValue(raw, a, val), fmt.Sprintf("AS_PATH: first segment count -> %d, content unchanged", val[1]), true
		}
		val[0] = pick(r, []byte{0, 3, 4, 5, 255})
		return replaceAttrValue(raw, a, val), fmt.Sprintf("AS_PATH: first segment type -> %d", val[0]), true
	case k == 5:
		// flags changed (optional / transitive / partial / extended length)
		out = append([]byte(nil), raw...)
		out[a.off] ^= pick(r, []byte{0x80, 0x40, 0x20, 0x10})
		return out, fmt.Sprintf("attribute %d: flags %#x -> %#x", a.code, raw[a.off], out[a.off]), true
	default:
		// the same attribute twice
		dup := raw[a.off : a.off+a.hdrLen+a.valLen]
		out = append([]byte(nil), raw[:a.off]...)
		out = append(out, dup...)
		out = append(out, raw[a.off:]...)
		wl := int(raw[19])<<8 | int(raw[20])
		p := 21 + wl
		tl := int(raw[p])<<8 | int(raw[p+1]) + len(dup)
		out[p], out[p+1] = byte(tl>>8), byte(tl)
		out[16], out[17] = byte(len(out)>>8), byte(len(out))
		return out, fmt.Sprintf("attribute %d twice", a.code), true
	}
}

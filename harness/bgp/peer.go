package bgp

import (
	"fmt"
	"strings"
	"net"
	"sort"
	"time"

	"github.com/bio-routing/bio-rd/net/tcp"
)

// PolicySpec is a policy of the bounded policy language (see policy.go).

// PeerCfg configures one neighbour: both the DUT's session configuration and the
// behaviour of the scripted peer.
type PeerCfg struct {
	Name     string `json:"name"`
	Addr     [4]byte `json:"addr"`
	AS       uint32 `json:"as"`
	ID       uint32 `json:"id"`
	PeerHold uint16 `json:"peer_hold"` // hold time offered by the peer (seconds)
	DUTHold  uint16 `json:"dut_hold"`  // hold time configured on the DUT (seconds)

	RRClient bool  `json:"rr_client,omitempty"`
	RSClient bool  `json:"rs_client,omitempty"`
	DUTRole  uint8 `json:"dut_role,omitempty"` // server.PeerConfigRole*
	Strict   bool  `json:"strict,omitempty"`
	PeerRole *uint8 `json:"peer_role,omitempty"` // RFC 9234 role value the peer advertises

	IPv4 bool `json:"ipv4"`
	IPv6 bool `json:"ipv6,omitempty"`
	DUTAdvMPv4 bool `json:"dut_adv_mpv4,omitempty"`
	PeerMPv4 bool `json:"peer_mpv4,omitempty"`

	AddPathRX bool `json:"addpath_rx,omitempty"` // DUT configured to receive add-path
	AddPathTX uint `json:"addpath_tx,omitempty"` // DUT configured to send up to N paths (0 = best only)
	PeerAddPath uint8 `json:"peer_addpath,omitempty"` // bits the peer advertises (1 receive, 2 send) for each configured family
	PeerASN4 bool `json:"peer_asn4"`

	Import *PolicySpec `json:"import,omitempty"`
	Export *PolicySpec `json:"export,omitempty"`

	MinDelayUS int64 `json:"min_delay_us"`
	JitterUS   int64 `json:"jitter_us"`
	ReplyDelayUS int64 `json:"reply_delay_us"`
	ReplyChunk   int   `json:"reply_chunk,omitempty"`        // deliver the automatic OPEN reply in pieces of this size ...
	ReplyChunkGapUS int64 `json:"reply_chunk_gap_us,omitempty"` // ... this far apart (slow, fragmenting path)
	Active bool `json:"active,omitempty"` // DUT dials out (non passive)
	ReconnectUS int64 `json:"reconnect_us,omitempty"` // DUT reconnect interval of an active peer
	DialTarget bool `json:"dial_target,omitempty"` // connections dialled by the DUT to this address end at this scripted peer
	Shadow     bool `json:"shadow,omitempty"`      // second scripted endpoint of a neighbour that is already configured (C24)
	ManualOpen bool `json:"manual_open,omitempty"` // the scripted peer does not answer OPEN by itself
	LocalAS    uint32 `json:"local_as,omitempty"`  // local AS of this session on the DUT if it differs from the DUT's (C06 only: several local ASNs in one VRF)
}

func (c PeerCfg) IBGP(local uint32) bool { return c.AS == local }

type viewKey struct {
	Pfx    Prefix
	PathID uint32
}

// RxMsg is a message the peer received from the DUT.
type RxMsg struct {
	At   time.Duration
	Conn *Conn
	Msg  *Msg
}

const (
	psIdle = iota
	psOpenSent
	psOpenConfirm
	psEstablished
)

// Peer is a scripted BGP neighbour (event driven, no goroutines).
type Peer struct {
	env  *Env
	dut  *DUT
	Cfg  PeerCfg
	Idx  int

	conn    *Conn
	connGen int
	rx      []byte
	state   int
	DUTOpen *Open
	opts    DecodeOpts
	txAddPath4, txAddPath6 bool // peer->DUT direction uses add-path
	txASN4  bool

	View      map[viewKey]Attrs
	Rx        []RxMsg
	Notifs    []RxMsg
	ClosedByDUTAt []time.Duration
	LastKeepaliveTimes []time.Duration
	kaGen     int
	Silent    bool // stop sending keepalives / anything automatic
	AutoOpen  bool
	StreamBroken bool
	EstablishedAt []time.Duration

	onUpdate func(p *Peer, c *Conn, u *Update, raw []byte)
	OpenOverride *OpenSpec // OPEN to send instead of the configuration's (C22)
	RefuseDial   bool      // connections dialled by the DUT are refused
	sendDelay    time.Duration // extra latency of everything sent now (batch-instant "par" steps: arrival together with the API calls)
	Conns        []*Conn   // every connection this endpoint has had
}

// acceptFromDUT is called (on a DUT goroutine) when the DUT dials this neighbour.
func (p *Peer) acceptFromDUT() *Conn {
	p.connGen++
	c := p.env.NewConn(p.Cfg.Name+"-out", &net.TCPAddr{IP: net.IPv4(10, 0, 0, 254), Port: 40000 + p.connGen}, p.TCPAddr(179),
		time.Duration(p.Cfg.MinDelayUS)*time.Microsecond, time.Duration(p.Cfg.JitterUS)*time.Microsecond)
	p.attach(c)
	p.env.trace(fmt.Sprintf("%s dialled-by-dut", c.name))
	return c
}

func (p *Peer) TCPAddr(port int) *net.TCPAddr {
	return &net.TCPAddr{IP: net.IPv4(p.Cfg.Addr[0], p.Cfg.Addr[1], p.Cfg.Addr[2], p.Cfg.Addr[3]), Port: port}
}

// Connect opens a TCP connection to the DUT (incoming connection on the DUT).
func (p *Peer) Connect() *Conn {
	p.connGen++
	c := p.env.NewConn(p.Cfg.Name, &net.TCPAddr{IP: net.IPv4(10, 0, 0, 254), Port: 179}, p.TCPAddr(30000+p.connGen),
		time.Duration(p.Cfg.MinDelayUS)*time.Microsecond, time.Duration(p.Cfg.JitterUS)*time.Microsecond)
	p.attach(c)
	ch := p.dut.LM.ch
	v := p.dut.VRF
	go func() { ch <- tcp.ConnWithVRF{Conn: c, VRF: v} }()
	p.env.trace(fmt.Sprintf("%s connect", c.name))
	p.env.Sim.Settle()
	return c
}

func (p *Peer) attach(c *Conn) {
	p.conn = c
	p.Conns = append(p.Conns, c)
	p.rx = nil
	p.state = psIdle
	p.DUTOpen = nil
	p.StreamBroken = false
	p.kaGen++
	c.onData = p.onData
	c.onClose = p.onDUTClose
	c.onBreak = func(c *Conn) {
		if c == p.conn {
			p.state = psIdle
			p.kaGen++
			p.env.trace(fmt.Sprintf("%s broken", c.name))
		}
	}
}

func (p *Peer) onDUTClose(c *Conn) {
	p.env.trace(fmt.Sprintf("%s peer-sees-close", c.name))
	if c == p.conn {
		p.ClosedByDUTAt = append(p.ClosedByDUTAt, p.env.Sim.Now())
		p.state = psIdle
		p.kaGen++
		c.peerClose(false)
	}
}

func (p *Peer) openSpec() OpenSpec {
	if p.OpenOverride != nil {
		return *p.OpenOverride
	}
	return openSpecFor(p.Cfg)
}

// openSpecFor is the OPEN a well-behaved peer with this configuration sends.
func openSpecFor(c PeerCfg) OpenSpec {
	o := OpenSpec{AS: c.AS, HoldTime: c.PeerHold, ID: c.ID, ASN4: c.PeerASN4,
		MPv4: c.PeerMPv4, MPv6: c.IPv6, Role: c.PeerRole}
	if c.PeerAddPath != 0 {
		o.AddPath = map[uint16]uint8{}
		if c.IPv4 {
			o.AddPath[1] = c.PeerAddPath
		}
		if c.IPv6 {
			o.AddPath[2] = c.PeerAddPath
		}
	}
	return o
}

// expected negotiation (RFC 7911 / 6793): a feature is on only if both sides advertised it.
func (p *Peer) negotiate(d *Open) {
	mine := p.openSpec()
	p.txASN4 = mine.ASN4 && d.HasASN4
	p.opts.ASN4 = p.txASN4
	// DUT -> peer add-path: DUT advertised send, peer advertised receive
	p.opts.AddPathV4 = d.AddPath[1]&2 != 0 && mine.AddPath[1]&1 != 0
	p.opts.AddPathV6 = d.AddPath[2]&2 != 0 && mine.AddPath[2]&1 != 0
	// peer -> DUT add-path: peer advertised send, DUT advertised receive
	p.txAddPath4 = d.AddPath[1]&1 != 0 && mine.AddPath[1]&2 != 0
	p.txAddPath6 = d.AddPath[2]&1 != 0 && mine.AddPath[2]&2 != 0
}

func (p *Peer) onData(c *Conn, b []byte) {
	if c != p.conn {
		return
	}
	p.rx = append(p.rx, b...)
	msgs, rest, err := SplitStream(p.rx)
	p.rx = rest
	for _, raw := range msgs {
		p.handle(c, raw)
	}
	if err != nil && !p.StreamBroken {
		p.StreamBroken = true
		p.env.Violate("WIRE", "dut_stream_framing", "%s: DUT byte stream is not a BGP stream: %v", c.name, err)
	}
}

func (p *Peer) handle(c *Conn, raw []byte) {
	m, err := DecodeMsg(raw, p.opts)
	now := p.env.Sim.Now()
	if len(raw) > 4096 {
		p.env.Violate("WIRE", "dut_msg_too_long", "%s: message of %d bytes", c.name, len(raw))
	}
	if err != nil {
		p.env.Violate("WIRE", "dut_msg_undecodable", "%s: type %d: %v (opts %+v)", c.name, raw[18], err, p.opts)
		if raw[18] == MsgUpdate && strings.Contains(err.Error(), "as_path") {
			// C09: what is sent to a neighbour carries an AS_PATH the neighbour can read (with the local
			// ASN in front on eBGP sessions); one that does not decode carries nothing
			p.env.Violate("C09", "as_path_sent_malformed", "%s: UPDATE whose AS_PATH does not decode: %v", c.name, err)
		}
		return
	}
	p.Rx = append(p.Rx, RxMsg{At: now, Conn: c, Msg: m})
	switch m.Type {
	case MsgOpen:
		p.DUTOpen = m.Open
		p.negotiate(m.Open)
		if p.AutoOpen && p.state == psIdle {
			p.state = psOpenSent
			d := time.Duration(p.Cfg.ReplyDelayUS) * time.Microsecond
			gen := p.kaGen
			p.env.Sim.After(d, 60, "", func() {
				if gen != p.kaGen || p.conn != c {
					return
				}
				if p.Cfg.ReplyChunk > 0 {
					raw := append(EncodeOpen(p.openSpec()), EncodeKeepalive()...)
					var sizes []int
					for n := 0; n < len(raw); n += p.Cfg.ReplyChunk {
						sizes = append(sizes, p.Cfg.ReplyChunk)
					}
					p.SendChunked(raw, sizes, us(p.Cfg.ReplyChunkGapUS))
				} else {
					p.enqueue(c, EncodeOpen(p.openSpec()), 0)
					p.enqueue(c, EncodeKeepalive(), 0)
				}
				p.state = psOpenConfirm
			})
		}
	case MsgKeepalive:
		p.LastKeepaliveTimes = append(p.LastKeepaliveTimes, now)
		if p.state == psOpenConfirm {
			p.state = psEstablished
			p.EstablishedAt = append(p.EstablishedAt, now)
			p.View = map[viewKey]Attrs{}
			if !p.Cfg.ManualOpen {
				p.startKeepalives(c) // hand-scripted peers start their keepalives with the plan's first keepalive step
			}
		}
	case MsgNotification:
		p.Notifs = append(p.Notifs, RxMsg{At: now, Conn: c, Msg: m})
	case MsgUpdate:
		p.applyUpdate(c, m.Update, raw)
	}
}

func (p *Peer) startKeepalives(c *Conn) {
	hold := p.openSpec().HoldTime
	if p.DUTOpen != nil && p.DUTOpen.HoldTime < hold {
		hold = p.DUTOpen.HoldTime
	}
	if hold == 0 {
		return
	}
	iv := time.Duration(hold) * time.Second / 3
	gen := p.kaGen
	var tick func()
	tick = func() {
		if gen != p.kaGen || p.conn != c || p.Silent {
			return
		}
		p.enqueue(c, EncodeKeepalive(), 0)
		p.env.Sim.After(iv, 60, "", tick)
	}
	p.env.Sim.After(iv, 60, "", tick)
}

func (p *Peer) applyUpdate(c *Conn, u *Update, raw []byte) {
	if p.View == nil {
		p.View = map[viewKey]Attrs{}
	}
	if p.onUpdate != nil {
		p.onUpdate(p, c, u, raw)
	}
	for _, n := range u.Withdrawn {
		delete(p.View, viewKey{n.Prefix, n.PathID})
	}
	for _, n := range u.MPUnreach {
		delete(p.View, viewKey{n.Prefix, n.PathID})
	}
	for _, n := range u.NLRI {
		p.View[viewKey{n.Prefix, n.PathID}] = u.Attrs
	}
	for _, n := range u.MPReach {
		p.View[viewKey{n.Prefix, n.PathID}] = u.Attrs
	}
}

// Established reports whether the peer considers the session established.
func (p *Peer) Established() bool { return p.state == psEstablished }

// enqueue delivers bytes to the DUT not before now+delay and never before bytes queued
// earlier on the same connection (TCP keeps the order of one stream).
func (p *Peer) enqueue(c *Conn, b []byte, delay time.Duration) {
	now := p.env.Sim.Now()
	at := now + p.sendDelay
	if at < c.lastPeerTx {
		at = c.lastPeerTx
	}
	at += delay
	c.lastPeerTx = at
	if at == now && c.pendingPeerTx == 0 {
		c.deliver(b)
		return
	}
	c.pendingPeerTx++
	p.env.Sim.At(at, 40, "", func() {
		c.pendingPeerTx--
		c.deliver(b)
	})
}

// Send delivers raw bytes to the DUT.
func (p *Peer) Send(b []byte) {
	if p.conn == nil {
		return
	}
	p.enqueue(p.conn, b, 0)
}

// SendChunked delivers b in pieces of the given sizes, gap apart (fragmentation fault).
func (p *Peer) SendChunked(b []byte, sizes []int, gap time.Duration) {
	c := p.conn
	if c == nil {
		return
	}
	off := 0
	i := 0
	for off < len(b) {
		n := len(b) - off
		if i < len(sizes) && sizes[i] > 0 && sizes[i] < n {
			n = sizes[i]
		}
		piece := b[off : off+n]
		d := gap
		if i == 0 {
			d = 0
		}
		p.enqueue(c, piece, d)
		p.env.fault("fragment")
		off += n
		i++
	}
}

// UpdateOpts returns the encoding options for peer -> DUT UPDATEs.
func (p *Peer) UpdateOpts(v6 bool) (asn4, addPath bool) {
	if v6 {
		return p.txASN4, p.txAddPath6
	}
	return p.txASN4, p.txAddPath4
}

// CloseConn closes the connection from the peer side.
func (p *Peer) CloseConn(reset bool) {
	if p.conn == nil {
		return
	}
	p.kaGen++
	p.state = psIdle
	p.conn.peerClose(reset)
	p.env.trace(fmt.Sprintf("%s close-by-peer", p.conn.name))
}

// SortedView returns the view keys in canonical order.
func (p *Peer) SortedView() []viewKey {
	ks := make([]viewKey, 0, len(p.View))
	for k := range p.View {
		ks = append(ks, k)
	}
	sort.Slice(ks, func(i, j int) bool {
		a, b := ks[i], ks[j]
		if a.Pfx.String() != b.Pfx.String() {
			return a.Pfx.String() < b.Pfx.String()
		}
		return a.PathID < b.PathID
	})
	return ks
}

package bgp

// Simulated TCP: an in-memory net.Conn whose delivery times, chunking, errors and
// closes are decided by the simulator. The DUT side is used by bio-rd goroutines, the
// peer side is an event handler run on the driver goroutine.

import (
	"crypto/sha256"
	"encoding/hex"
	"errors"
	"fmt"
	"io"
	"net"
	"time"

	"github.com/bio-routing/bio-rd/net/tcp"
	"github.com/bio-routing/bio-rd/routingtable/vrf"
	"verif.local/simrt"
)

var errReset = errors.New("simnet: connection reset by peer")
var errInjected = errors.New("simnet: injected write error")

// Conn is the DUT side of a simulated TCP connection.
type Conn struct {
	env    *Env
	id     int
	name   string
	local  *net.TCPAddr
	remote *net.TCPAddr

	mu         simrt.InternalLock // short critical sections only (race build: invisible to the detector, like a kernel socket)
	rbuf       []byte
	rEOF       bool
	rwaiters   []chan struct{}
	closedDUT  bool
	peerClosed bool
	peerClosedFirst bool
	peerReset  bool
	wErrOnce   int // number of upcoming writes that fail
	wBlocked   bool
	wwake      chan struct{}

	rng         *simrt.Rand
	minDelay    time.Duration
	jitter      time.Duration
	lastDeliver time.Duration
	wseq        int

	lastPeerTx    time.Duration // peer -> DUT stream: time of the last queued delivery
	pendingPeerTx int

	onData  func(c *Conn, b []byte) // peer handler (driver goroutine)
	onClose func(c *Conn)           // DUT closed (driver goroutine)
	onBreak func(c *Conn)           // connection broke (injected fault); driver goroutine

	BytesFromDUT int
	WritesFromDUT int
	WritesAfterClose int
	firstLateWrite   lateWrite
}

type lateWrite struct {
	at   time.Duration
	what string
}

func (c *Conn) String() string { return c.name }

// Read implements net.Conn for the DUT.
func (c *Conn) Read(p []byte) (int, error) {
	for {
		c.mu.Lock()
		if c.closedDUT {
			c.mu.Unlock()
			return 0, net.ErrClosed
		}
		if len(c.rbuf) > 0 {
			n := copy(p, c.rbuf)
			c.rbuf = c.rbuf[n:]
			if len(c.rbuf) > 0 {
				c.wakeOneReaderLocked() // bytes left for another blocked reader (if any)
			}
			c.mu.Unlock()
			return n, nil
		}
		if c.rEOF {
			reset := c.peerReset
			c.mu.Unlock()
			if reset {
				return 0, errReset
			}
			return 0, io.EOF
		}
		w := make(chan struct{})
		c.rwaiters = append(c.rwaiters, w)
		if len(c.rwaiters) > 1 {
			c.env.probe("concurrent_readers_on_one_connection")
		}
		c.mu.Unlock()
		<-w // durable block inside the bubble
	}
}

// wakeReadersLocked wakes every blocked reader (close / EOF).
func (c *Conn) wakeReadersLocked() {
	for _, w := range c.rwaiters {
		close(w)
	}
	c.rwaiters = nil
}

// wakeOneReaderLocked wakes one blocked reader. Which one gets the bytes when several
// goroutines read the same connection is the kernel's choice: a seeded choice here.
func (c *Conn) wakeOneReaderLocked() {
	n := len(c.rwaiters)
	if n == 0 {
		return
	}
	i := 0
	if n > 1 {
		i = c.rng.Intn(n)
	}
	w := c.rwaiters[i]
	c.rwaiters = append(c.rwaiters[:i], c.rwaiters[i+1:]...)
	close(w)
}

// Write implements net.Conn for the DUT.
func (c *Conn) Write(p []byte) (int, error) {
	// a write is a point at which the kernel may run somebody else: with the gate scheduler on it is
	// a scheduling decision like a lock acquisition
	simrt.Yield()
	for {
		c.mu.Lock()
		if c.closedDUT {
			c.WritesAfterClose++
			if c.WritesAfterClose == 1 {
				what := fmt.Sprintf("%d bytes", len(p))
				if len(p) >= 19 {
					what = fmt.Sprintf("message type %d, %d bytes", p[18], len(p))
				}
				c.firstLateWrite = lateWrite{at: c.env.Sim.Now(), what: what}
			}
			c.mu.Unlock()
			return 0, net.ErrClosed
		}
		if c.wErrOnce > 0 {
			// a failing write means the connection is gone (EPIPE / ECONNRESET): everything after it
			// fails as well and the reader sees the reset
			c.wErrOnce = 0
			c.peerReset = true
			c.peerClosed = true
			c.rEOF = true
			c.wakeReadersLocked()
			br := c.onBreak
			c.mu.Unlock()
			c.env.fault("write_error")
			if br != nil {
				c.env.Sim.After(0, 52, "", func() { br(c) })
			}
			return 0, errInjected
		}
		if c.peerReset {
			c.mu.Unlock()
			return 0, errReset
		}
		if c.wBlocked {
			if c.wwake == nil {
				c.wwake = make(chan struct{})
			}
			w := c.wwake
			c.mu.Unlock()
			c.env.fault("write_stall")
			<-w
			continue
		}
		data := append([]byte(nil), p...)
		c.BytesFromDUT += len(p)
		c.WritesFromDUT++
		c.wseq++
		seq := c.wseq
		dropped := c.peerClosed
		c.mu.Unlock()
		c.env.recordWrite(c, seq, data)
		if !dropped {
			c.env.scheduleToPeer(c, data)
		}
		return len(p), nil
	}
}

// Close implements net.Conn for the DUT.
func (c *Conn) Close() error {
	c.mu.Lock()
	if c.closedDUT {
		c.mu.Unlock()
		return net.ErrClosed
	}
	c.closedDUT = true
	c.wakeReadersLocked()
	if c.wwake != nil {
		close(c.wwake)
		c.wwake = nil
	}
	c.mu.Unlock()
	c.env.trace(fmt.Sprintf("%s close-by-dut", c.name))
	c.env.scheduleCloseToPeer(c)
	return nil
}

func (c *Conn) LocalAddr() net.Addr                { return c.local }
func (c *Conn) RemoteAddr() net.Addr               { return c.remote }
func (c *Conn) SetDeadline(t time.Time) error      { return nil }
func (c *Conn) SetReadDeadline(t time.Time) error  { return nil }
func (c *Conn) SetWriteDeadline(t time.Time) error { return nil }

// ClosedByDUT reports whether the DUT closed its end.
func (c *Conn) ClosedByDUT() bool {
	c.mu.Lock()
	defer c.mu.Unlock()
	return c.closedDUT
}

// deliver appends bytes to the DUT's receive buffer (driver goroutine).
func (c *Conn) deliver(b []byte) {
	c.env.notePeerDelivery() // before any reader can react (fsmlog.go)
	c.mu.Lock()
	if c.closedDUT || c.rEOF {
		c.mu.Unlock()
		return
	}
	c.rbuf = append(c.rbuf, b...)
	c.wakeOneReaderLocked()
	c.mu.Unlock()
}

// peerClose closes the connection from the peer side (driver goroutine).
func (c *Conn) peerClose(reset bool) {
	c.env.notePeerClose()
	c.mu.Lock()
	if !c.closedDUT && !c.peerClosed {
		c.peerClosedFirst = true // the neighbour ended this connection, not the DUT
	}
	c.rEOF = true
	c.peerClosed = true
	c.peerReset = reset
	c.wakeReadersLocked()
	c.mu.Unlock()
}

// failWrites makes the next n DUT writes fail.
func (c *Conn) failWrites(n int) {
	c.mu.Lock()
	c.wErrOnce = n
	c.mu.Unlock()
}

// blockWrites stalls/unstalls DUT writes (peer stopped reading, send buffer full).
func (c *Conn) blockWrites(b bool) {
	c.mu.Lock()
	c.wBlocked = b
	if !b && c.wwake != nil {
		close(c.wwake)
		c.wwake = nil
	}
	c.mu.Unlock()
}

// listener manager

type simLM struct {
	ch chan tcp.ConnWithVRF
}

func newSimLM() *simLM { return &simLM{ch: make(chan tcp.ConnWithVRF)} }

func (l *simLM) ListenAddrsPerVRF(v *vrf.VRF) []string        { return []string{"[::]:179"} }
func (l *simLM) GetListeners(v *vrf.VRF) []tcp.ListenerI      { return nil }
func (l *simLM) CreateListenersIfNotExists(v *vrf.VRF) error  { return nil }
func (l *simLM) AcceptCh() chan tcp.ConnWithVRF               { return l.ch }

func shortHash(b []byte) string {
	h := sha256.Sum256(b)
	return hex.EncodeToString(h[:6])
}

package bgp

import (
	"fmt"
	"testing"
)

func smokePlan(seed uint64) *Plan {
	lp := uint32(100)
	pl := &Plan{Prop: "SMOKE", Engine: "bgpsim", Seed: seed,
		Sim: SimCfg{ShuffleTies: true, ShuffleMaps: true},
		DUT: DUTCfg{RouterID: 0x0a0000fe, LocalAS: 65000},
		Peers: []PeerCfg{
			{Name: "p1", Addr: [4]byte{10, 0, 0, 1}, AS: 65001, ID: 0x0a000001, PeerHold: 90, DUTHold: 90, IPv4: true, IPv6: true, PeerASN4: true, Import: AcceptAll(), Export: AcceptAll(), MinDelayUS: 100, JitterUS: 500, ReplyDelayUS: 200},
			{Name: "p2", Addr: [4]byte{10, 0, 0, 2}, AS: 65002, ID: 0x0a000002, PeerHold: 30, DUTHold: 90, IPv4: true, PeerASN4: true, Import: AcceptAll(), Export: AcceptAll(), MinDelayUS: 100, JitterUS: 500, ReplyDelayUS: 200},
			{Name: "p3", Addr: [4]byte{10, 0, 0, 3}, AS: 65000, ID: 0x0a000003, PeerHold: 90, DUTHold: 90, IPv4: true, PeerASN4: true, Import: AcceptAll(), Export: AcceptAll(), MinDelayUS: 100, JitterUS: 500, ReplyDelayUS: 200},
		},
		TailUS: 200_000_000,
	}
	pl.Steps = []Step{
		{GapUS: 1000, Kind: "connect", Peer: 0},
		{GapUS: 1000, Kind: "connect", Peer: 1},
		{GapUS: 1000, Kind: "connect", Peer: 2},
		{GapUS: 2_000_000, Kind: "announce", Peer: 0, Pfx: []Prefix{P4(192, 168, 0, 0, 16), P4(192, 168, 1, 0, 24)}, Attr: &AttrSpec{ASPath: []Segment{{2, []uint32{65001, 20001}}}, NextHop: 0x0a000001}},
		{GapUS: 10_000, Kind: "announce", Peer: 1, Pfx: []Prefix{P4(192, 168, 0, 0, 16)}, Attr: &AttrSpec{ASPath: []Segment{{2, []uint32{65002, 30, 20002}}}, NextHop: 0x0a000002}},
		{GapUS: 10_000, Kind: "announce", Peer: 2, Pfx: []Prefix{P4(172, 16, 0, 0, 12)}, Attr: &AttrSpec{ASPath: []Segment{{2, []uint32{20003}}}, NextHop: 0x0a000003, LocalPref: &lp}},
		{GapUS: 10_000, Kind: "announce", Peer: 0, V6: true, Pfx: []Prefix{P6(0x20010db800010000, 0, 48)}, Attr: &AttrSpec{ASPath: []Segment{{2, []uint32{65001, 20004}}}, NextHop: 0x0a000001}},
		{GapUS: 1_000_000, Kind: "withdraw", Peer: 0, Pfx: []Prefix{P4(192, 168, 1, 0, 24)}},
		{GapUS: 1_000_000, Kind: "peer_silent", Peer: 1, On: true},
	}
	return pl
}

func TestSmoke(t *testing.T) {
	var first string
	for i := 0; i < 3; i++ {
		res := RunPlan(t, smokePlan(7), RunOpts{KeepTrace: true, Oracles: func(p *Plan) []Oracle { return []Oracle{&smokeOracle{}} }})
		if res.Panic != "" {
			t.Fatalf("panic: %s", res.Panic)
		}
		for _, v := range res.Violations {
			t.Errorf("violation: %+v", v)
		}
		fmt.Printf("run %d: trace=%s shape=%s events=%d simtime=%.1fs wall=%dus probes=%v faults=%v\n", i, res.TraceHash, res.ShapeHash, res.Stats.Events, float64(res.SimTimeNS)/1e9, res.WallUS, res.Probes, res.Faults)
		if i == 0 {
			first = res.TraceHash
			for _, l := range res.Trace {
				fmt.Println(l)
			}
		} else if res.TraceHash != first {
			t.Errorf("non-deterministic trace")
		}
	}
}

type smokeOracle struct{}

func (o *smokeOracle) Init(w *World) {}
func (o *smokeOracle) AfterStep(w *World, i int, s *Step) {
	if i == 2 || i == 7 {
		w.Env.Sim.RunFor(us(500_000))
		for _, p := range w.Peers {
			f, n := w.DUT.EstablishedFSM(p)
			fmt.Printf("step %d peer %s established=%v n=%d view=%d\n", i, p.Cfg.Name, f != nil, n, len(p.View))
		}
		for _, l := range w.DUT.LocRIBDump(false).Lines(true, true) {
			fmt.Println("  locrib4:", l)
		}
	}
}
func (o *smokeOracle) Final(w *World) {
	for _, p := range w.Peers {
		fs := w.DUT.FSMs(p)
		for _, f := range fs {
			fmt.Printf("final peer %s state=%s init=%v notifs=%d closed=%d\n", p.Cfg.Name, f.State, f.RibsInitialized, len(p.Notifs), len(p.ClosedByDUTAt))
		}
		for _, k := range p.SortedView() {
			fmt.Printf("   view %s id=%d %s\n", k.Pfx, k.PathID, CanonFromAttrs(p.View[k], k.PathID).Key(false))
		}
	}
}

package bgp

import (
	"fmt"
	"sort"
	"strings"

	bnet "github.com/bio-routing/bio-rd/net"
	"github.com/bio-routing/bio-rd/protocols/bgp/types"
	"github.com/bio-routing/bio-rd/route"
	"github.com/bio-routing/bio-rd/routingtable"
	"github.com/bio-routing/bio-rd/routingtable/locRIB"
	"verif.local/simrt"
)

// ---------------------------------------------------------------------------------------
// candidate paths (shared by C02 and C04)

// CandSpec is a candidate path from the bounded attribute domain of C02.
type CandSpec struct {
	Static    bool   `json:"static,omitempty"`
	LocalPref uint32 `json:"lp"`
	ASLen     int    `json:"as_len"`
	Origin    uint8  `json:"origin"`
	MED       uint32 `json:"med"`
	EBGP      bool   `json:"ebgp"`
	BGPID     uint32 `json:"bgp_id"`
	OrigID    uint32 `json:"originator_id"`
	Cluster   int    `json:"cluster"` // -1 absent, 0 empty, n = n entries
	Source    uint32 `json:"source"`
	NextHop   uint32 `json:"next_hop"`
	OwnAS     bool   `json:"own_as,omitempty"` // the local ASN appears in the AS_PATH (C05 tables)
	// V6: peer address and next hop are IPv6 addresses made from Source / NextHop: 1 = the upper and the
	// lower 64 bits order the addresses in opposite directions, 2 = equal upper halves
	V6 uint8 `json:"v6,omitempty"`
	// TwinOf (noise paths, 1-based): the same path as that candidate - same attributes, same tag -
	// learned from another peer address
	TwinOf int `json:"twin_of,omitempty"`
}

// addr builds the peer address / next hop of a candidate.
func (c CandSpec) addr(v uint32) *bnet.IP {
	switch c.V6 {
	case 1:
		k := uint64(v & 0xff)
		return bnet.IPv6(0x20010db800000000+k, 100-k).Dedup()
	case 2:
		return bnet.IPv6(0x20010db800000000, uint64(v&0xff)).Dedup()
	}
	return bnet.IPv4(v).Dedup()
}

func (c CandSpec) String() string {
	if c.Static {
		return fmt.Sprintf("static(nh=%d)", c.NextHop&0xff)
	}
	return fmt.Sprintf("bgp(lp=%d aslen=%d o=%d med=%d ebgp=%v id=%d orig=%d cl=%d src=%d nh=%d)", c.LocalPref, c.ASLen, c.Origin, c.MED, c.EBGP, c.BGPID, c.OrigID, c.Cluster, c.Source&0xff, c.NextHop&0xff)
}

// decisionKey: the attributes the decision process may look at (C03's list); two paths that differ here must not tie.
func (c CandSpec) decisionKey() string {
	if c.Static {
		return fmt.Sprintf("static/%d", c.NextHop)
	}
	id := c.BGPID
	if c.OrigID != 0 {
		id = c.OrigID
	}
	cl := c.Cluster
	if cl < 0 {
		cl = 0
	}
	return fmt.Sprintf("bgp/%d/%d/%d/%d/%v/%d/%d/%s/%s", c.LocalPref, c.ASLen, c.Origin, c.MED, c.EBGP, id, cl, c.addr(c.Source), c.addr(c.NextHop))
}

// pathDecisionKey is decisionKey read from a path as it is stored (what the table really holds).
func pathDecisionKey(p *route.Path) string {
	if p.Type == route.StaticPathType {
		return fmt.Sprintf("static/%d", p.StaticPath.NextHop.ToUint32())
	}
	a := p.BGPPath.BGPPathA
	id := a.BGPIdentifier
	if a.OriginatorID != 0 {
		id = a.OriginatorID
	}
	cl := 0
	if p.BGPPath.ClusterList != nil {
		cl = len(*p.BGPPath.ClusterList)
	}
	return fmt.Sprintf("bgp/%d/%d/%d/%d/%v/%d/%d/%s/%s", a.LocalPref, p.BGPPath.ASPathLen, a.Origin, a.MED, a.EBGP, id, cl, a.Source, a.NextHop)
}

// build makes the bio-rd path; idx is carried in a community (not looked at by the decision process).
func (c CandSpec) build(idx int) *route.Path {
	if c.Static {
		return staticPath(c.NextHop)
	}
	asns := make([]uint32, c.ASLen)
	for i := range asns {
		asns[i] = uint32(100 + i)
	}
	if c.OwnAS {
		asns = append(asns, 65000)
	}
	ap := types.NewASPath(asns)
	if len(asns) == 0 {
		ap = &types.ASPath{} // an empty AS_PATH has no segment (NewASPath would make one empty segment)
	}
	coms := types.Communities{uint32(0xfd000000 + idx)}
	p := &route.Path{Type: route.BGPPathType, BGPPath: &route.BGPPath{
		BGPPathA: &route.BGPPathA{
			NextHop: c.addr(c.NextHop), Source: c.addr(c.Source), LocalPref: c.LocalPref, MED: c.MED,
			BGPIdentifier: c.BGPID, OriginatorID: c.OrigID, EBGP: c.EBGP, Origin: c.Origin,
		},
		ASPath: ap, ASPathLen: ap.Length(), Communities: &coms,
	}}
	if c.Cluster >= 0 {
		cl := make(types.ClusterList, c.Cluster)
		for i := range cl {
			cl[i] = uint32(0x01010100 + i)
		}
		p.BGPPath.ClusterList = &cl
	}
	return p
}

func candIndex(p *route.Path) int {
	if p.Type == route.StaticPathType {
		return int(1000 + p.StaticPath.NextHop.ToUint32()&0xff)
	}
	if p.BGPPath != nil && p.BGPPath.Communities != nil {
		for _, c := range *p.BGPPath.Communities {
			if c&0xff000000 == 0xfd000000 {
				return int(c & 0xffffff)
			}
		}
	}
	return -1
}

func genCand(r *simrt.Rand, allowStatic bool) CandSpec {
	if allowStatic && r.Chance(0.15) {
		return CandSpec{Static: true, NextHop: 0x0a630000 + uint32(r.Intn(3))}
	}
	return CandSpec{
		LocalPref: pick(r, []uint32{100, 100, 200}), ASLen: 1 + r.Intn(2), Origin: uint8(r.Intn(2)), MED: pick(r, []uint32{0, 0, 10}),
		EBGP: r.Chance(0.5), BGPID: uint32(1 + r.Intn(2)), OrigID: uint32(r.Intn(3)), Cluster: r.Intn(4) - 1,
		Source: 0x0a000001 + uint32(r.Intn(3)), NextHop: 0x0a000001 + uint32(r.Intn(2)),
	}
}

// ---------------------------------------------------------------------------------------
// C02: best path and ECMP set do not depend on arrival order

func genC02(seed uint64) *Plan {
	r := propRand("C02", seed)
	pl := &Plan{Prop: "C02", Engine: "ribsim", Seed: seed, DUT: DUTCfg{RouterID: 1, LocalAS: 65000}}
	pl.Sim = SimCfg{ShuffleMaps: r.Chance(0.5)}
	n := 2 + r.Intn(4)
	allowStatic := r.Chance(0.3)
	v6 := uint8(0)
	if r.Chance(0.3) {
		v6 = uint8(1 + r.Intn(2))
	}
	seen := map[string]bool{}
	for len(pl.Cands) < n {
		c := genCand(r, allowStatic)
		if !c.Static {
			c.V6 = v6
		}
		// two candidates that are the same path (same source, same attributes) are one path
		if seen[c.String()] {
			continue
		}
		seen[c.String()] = true
		pl.Cands = append(pl.Cands, c)
	}
	// noise paths that are added and removed again in between
	for i := r.Intn(3); i > 0; i-- {
		nc := genCand(r, false)
		nc.V6 = v6
		if k := r.Intn(len(pl.Cands)); r.Chance(0.4) && !pl.Cands[k].Static {
			// the same path as candidate k, learned from another peer: removing it must not touch k
			nc = pl.Cands[k]
			nc.Source = pick(r, []uint32{0x0a000000, 0x0a000009}) // sorts after / before every candidate's address
			nc.TwinOf = k + 1
		}
		pl.Noise = append(pl.Noise, nc)
	}
	pl.Steps = []Step{{Kind: "c02_run"}}
	return pl
}

type c02Oracle struct{}

func (o *c02Oracle) Init(w *World) {
	w.Data["exec:c02_run"] = func(w *World, i int, s *Step) { o.run(w) }
}
func (o *c02Oracle) AfterStep(w *World, i int, s *Step) {}
func (o *c02Oracle) Final(w *World)                      {}

func permutations(n int, limit int, r *simrt.Rand) [][]int {
	var out [][]int
	base := make([]int, n)
	for i := range base {
		base[i] = i
	}
	var rec func(k int)
	rec = func(k int) {
		if len(out) >= limit {
			return
		}
		if k == n {
			out = append(out, append([]int(nil), base...))
			return
		}
		for i := k; i < n; i++ {
			base[k], base[i] = base[i], base[k]
			rec(k + 1)
			base[k], base[i] = base[i], base[k]
		}
	}
	rec(0)
	return out
}

func (o *c02Oracle) run(w *World) {
	cands, noise := w.Plan.Cands, w.Plan.Noise
	pfx := ToBnetPrefix(P4(192, 0, 2, 0, 24))
	// the preference relation on the candidates: antisymmetric, transitive, ties only between indistinguishable paths
	paths := make([]*route.Path, len(cands))
	for i, c := range cands {
		paths[i] = c.build(i)
	}
	sel := func(i, j int) int { return int(paths[i].Select(paths[j])) }
	sign := func(x int) int {
		switch {
		case x > 0:
			return 1
		case x < 0:
			return -1
		}
		return 0
	}
	for i := range cands {
		for j := range cands {
			if i == j {
				continue
			}
			if sign(sel(i, j)) != -sign(sel(j, i)) {
				w.Env.Violate("C02", "not_antisymmetric", "Select(%s, %s)=%d but Select(reverse)=%d", cands[i], cands[j], sel(i, j), sel(j, i))
			}
			if sel(i, j) == 0 && cands[i].decisionKey() != cands[j].decisionKey() {
				w.Env.Violate("C02", "tie_between_distinguishable_paths", "%s and %s tie although they differ in a decision attribute", cands[i], cands[j])
			}
			for k := range cands {
				if k == i || k == j {
					continue
				}
				if sel(i, j) >= 0 && sel(j, k) >= 0 && sel(i, k) < 0 {
					w.Env.Violate("C02", "not_transitive", "%s >= %s >= %s but the first is worse than the last", cands[i], cands[j], cands[k])
				}
			}
		}
	}
	// all (up to 120) arrival orders on fresh Loc-RIBs, with noise added and removed in between
	perms := permutations(len(cands), 120, w.Env.Rng)
	buildNoise := func(k int) *route.Path {
		if t := noise[k].TwinOf; t > 0 {
			return noise[k].build(t - 1)
		}
		return noise[k].build(500 + k)
	}
	var ref string
	var refOrder []int
	for pi, perm := range perms {
		rib := locRIB.New("c02")
		// the first order is the reference: the candidates alone. Every other order has the noise
		// paths added and removed again in between, and every second one additionally ends with all
		// noise paths being added and then removed (the last operations are removals)
		for k, ci := range perm {
			rib.AddPath(pfx, cands[ci].build(ci))
			if pi > 0 && k < len(noise) {
				rib.AddPath(pfx, buildNoise(k))
				rib.RemovePath(pfx, buildNoise(k))
			}
		}
		if pi%2 == 1 {
			for k := range noise {
				rib.AddPath(pfx, buildNoise(k))
			}
			for k := range noise {
				rib.RemovePath(pfx, buildNoise(k))
			}
		}
		r := rib.Get(pfx)
		if r == nil {
			w.Env.Violate("C02", "route_missing", "no route after adding %d paths", len(cands))
			return
		}
		ps := r.Paths()
		best := candIndex(ps[0])
		var ecmp []int
		for _, p := range r.ECMPPaths() {
			ecmp = append(ecmp, candIndex(p))
		}
		sort.Ints(ecmp)
		var all []int
		for _, p := range ps {
			all = append(all, candIndex(p))
		}
		sort.Ints(all)
		// paths the decision process cannot distinguish are interchangeable: compare by decision attributes
		dk := func(idx int) string {
			if idx >= 0 && idx < len(cands) {
				return cands[idx].decisionKey()
			}
			return fmt.Sprint(idx)
		}
		var ecmpK []string
		for _, e := range ecmp {
			ecmpK = append(ecmpK, dk(e))
		}
		sort.Strings(ecmpK)
		// what the table really holds, read from the stored paths (a path that was swapped for
		// its twin from another peer carries the candidate's tag but not its peer address)
		var storedK []string
		for _, p := range ps {
			storedK = append(storedK, pathDecisionKey(p))
		}
		sort.Strings(storedK)
		got := fmt.Sprintf("best=%s/%s ecmp=%v stored=%v %v", dk(best), pathDecisionKey(ps[0]), ecmpK, all, storedK)
		if pi == 0 {
			ref, refOrder = got, perm
			continue
		}
		if got != ref {
			var cs []string
			for i, c := range cands {
				cs = append(cs, fmt.Sprintf("%d:%s", i, c))
			}
			w.Env.Violate("C02", "selection_depends_on_arrival_order", "candidates [%s]: arrival order %v gives %s, arrival order %v gives %s", strings.Join(cs, " "), refOrder, ref, perm, got)
			break
		}
	}
	w.Data["nontrivial"] = len(perms) > 1
	var ks []string
	for _, c := range cands {
		ks = append(ks, c.decisionKey())
	}
	sort.Strings(ks)
	w.Data["shape"] = strings.Join(ks, "|")
	w.Env.probeN("arrival_orders_compared", len(perms))
}

// ---------------------------------------------------------------------------------------
// C04: Loc-RIB clients hold exactly the selected paths they asked for

type recClient struct {
	name    string
	opts    routingtable.ClientOptions
	held    map[Prefix]map[int]int // prefix -> path index -> count
	active  bool
	late    []string // callbacks after Unregister returned
	env     *Env
	adds    int
	removes int
}

func (c *recClient) add(pfx *bnet.Prefix, p *route.Path, how string) {
	if !c.active {
		c.late = append(c.late, how)
		return
	}
	k := FromBnetPrefix(pfx)
	if c.held[k] == nil {
		c.held[k] = map[int]int{}
	}
	c.held[k][candIndex(p)]++
	c.adds++
}
func (c *recClient) AddPath(pfx *bnet.Prefix, p *route.Path) error { c.add(pfx, p, "AddPath"); return nil }
func (c *recClient) AddPathInitialDump(pfx *bnet.Prefix, p *route.Path) error {
	c.add(pfx, p, "AddPathInitialDump")
	return nil
}
func (c *recClient) EndOfRIB() {}
func (c *recClient) RemovePath(pfx *bnet.Prefix, p *route.Path) bool {
	if !c.active {
		c.late = append(c.late, "RemovePath")
		return false
	}
	k := FromBnetPrefix(pfx)
	idx := candIndex(p)
	if c.held[k][idx] > 0 {
		c.held[k][idx]--
		if c.held[k][idx] == 0 {
			delete(c.held[k], idx)
		}
	}
	c.removes++
	return true
}
func (c *recClient) ReplacePath(pfx *bnet.Prefix, old *route.Path, new *route.Path) {
	c.RemovePath(pfx, old)
	c.add(pfx, new, "ReplacePath")
}
func (c *recClient) RefreshRoute(pfx *bnet.Prefix, ps []*route.Path) {
	if !c.active {
		c.late = append(c.late, "RefreshRoute")
		return
	}
	// a refresh re-sends the propagated paths: the set the client holds becomes exactly this
	k := FromBnetPrefix(pfx)
	c.held[k] = map[int]int{}
	for _, p := range ps {
		c.held[k][candIndex(p)]++
	}
}
func (c *recClient) Dispose() {}

func genC04(seed uint64) *Plan {
	r := propRand("C04", seed)
	pl := &Plan{Prop: "C04", Engine: "ribsim", Seed: seed, DUT: DUTCfg{RouterID: 1, LocalAS: 65000}}
	pl.Sim = SimCfg{ShuffleMaps: r.Chance(0.7)}
	nc := 3 + r.Intn(6)
	seen := map[string]bool{}
	for len(pl.Cands) < nc {
		c := genCand(r, false)
		if seen[c.String()] {
			continue
		}
		seen[c.String()] = true
		pl.Cands = append(pl.Cands, c)
	}
	pfxs := []Prefix{P4(192, 0, 2, 0, 24), P4(198, 51, 100, 0, 24), P4(203, 0, 113, 0, 24)}
	nclients := 1 + r.Intn(4)
	n := 8 + r.Intn(40)
	for i := 0; i < n; i++ {
		switch weighted(r, map[string]int{"add": 10, "remove": 6, "register": 3, "unregister": 2, "refresh": 1, "replace": 4}, []string{"add", "remove", "register", "unregister", "refresh", "replace"}) {
		case "replace":
			// LocRIB.ReplacePath: a stored path (N) is replaced by another candidate (Code)
			pl.Steps = append(pl.Steps, Step{Kind: "lr_op", Label: "replace", Pfx: []Prefix{pick(r, pfxs)}, N: r.Intn(nc), Code: uint8(r.Intn(nc))})
		case "add":
			pl.Steps = append(pl.Steps, Step{Kind: "lr_op", Label: "add", Pfx: []Prefix{pick(r, pfxs)}, N: r.Intn(nc)})
		case "remove":
			pl.Steps = append(pl.Steps, Step{Kind: "lr_op", Label: "remove", Pfx: []Prefix{pick(r, pfxs)}, N: r.Intn(nc)})
		case "register":
			st := Step{Kind: "lr_op", Label: "register", Peer: r.Intn(nclients)}
			switch r.Intn(3) {
			case 0:
				st.Code = 1 // best only
			case 1:
				st.Code = 2 // ECMP only
			default:
				st.Code = 3
				st.N = 1 + r.Intn(4) // max paths
			}
			pl.Steps = append(pl.Steps, st)
		case "unregister":
			pl.Steps = append(pl.Steps, Step{Kind: "lr_op", Label: "unregister", Peer: r.Intn(nclients)})
		case "refresh":
			pl.Steps = append(pl.Steps, Step{Kind: "lr_op", Label: "refresh", Peer: r.Intn(nclients)})
		}
	}
	if r.Chance(0.4) {
		// "registered before, during or after route changes": independent operations (different
		// paths, different clients) are released together and interleaved at every lock boundary
		pl.Sim.GateProb = pick(r, []float64{0.5, 1})
		pl.Sim.Sticky = pick(r, []float64{0, 0.5})
		pl.Sim.Priority = r.Chance(0.4)
		pl.Sim.RandomHandoff = r.Chance(0.5)
		var out []Step
		for i := 0; i < len(pl.Steps); {
			if !r.Chance(0.6) {
				out = append(out, pl.Steps[i])
				i++
				continue
			}
			var grp []Step
			paths, clients := map[string]bool{}, map[int]bool{}
			for ; i < len(pl.Steps) && len(grp) < 3; i++ {
				st := pl.Steps[i]
				ok := true
				switch st.Label {
				case "add", "remove", "replace":
					ks := []string{fmt.Sprintf("%s/%d", st.Pfx[0], st.N)}
					if st.Label == "replace" {
						ks = append(ks, fmt.Sprintf("%s/%d", st.Pfx[0], st.Code))
					}
					for _, k := range ks {
						if paths[k] {
							ok = false
						}
					}
					if ok {
						for _, k := range ks {
							paths[k] = true
						}
					}
				default:
					if clients[st.Peer] {
						ok = false
					}
					clients[st.Peer] = true
				}
				if !ok {
					break
				}
				grp = append(grp, st)
			}
			if len(grp) > 1 {
				out = append(out, Step{Kind: "par", Par: grp})
			} else {
				out = append(out, grp...)
			}
		}
		pl.Steps = out
	}
	return pl
}

type c04Oracle struct {
	rib     *locRIB.LocRIB
	clients map[int]*recClient
	stored  map[Prefix]map[int]bool
	regs    int
}

func (o *c04Oracle) Init(w *World) {
	o.rib = locRIB.New("c04")
	o.clients = map[int]*recClient{}
	o.stored = map[Prefix]map[int]bool{}
	w.Data["exec:lr_op"] = func(w *World, i int, s *Step) { o.apply(w, i, s) }
}

func (o *c04Oracle) apply(w *World, i int, s *Step) {
	cands := w.Plan.Cands
	switch s.Label {
	case "add":
		pfx := s.Pfx[0]
		if o.stored[pfx] == nil {
			o.stored[pfx] = map[int]bool{}
		}
		if o.stored[pfx][s.N] {
			return // the same path twice is one path
		}
		o.stored[pfx][s.N] = true
		w.Go("LocRIB.AddPath", func() { o.rib.AddPath(ToBnetPrefix(pfx), cands[s.N].build(s.N)) })
	case "remove":
		pfx := s.Pfx[0]
		if !o.stored[pfx][s.N] {
			return
		}
		delete(o.stored[pfx], s.N)
		w.Go("LocRIB.RemovePath", func() { o.rib.RemovePath(ToBnetPrefix(pfx), cands[s.N].build(s.N)) })
	case "replace":
		pfx := s.Pfx[0]
		nw := int(s.Code)
		if !o.stored[pfx][s.N] || o.stored[pfx][nw] || nw >= len(cands) {
			return
		}
		delete(o.stored[pfx], s.N)
		o.stored[pfx][nw] = true
		w.Env.probe("locrib_replace_path")
		w.Go("LocRIB.ReplacePath", func() { o.rib.ReplacePath(ToBnetPrefix(pfx), cands[s.N].build(s.N), cands[nw].build(nw)) })
	case "register":
		if c := o.clients[s.Peer]; c != nil && c.active {
			return
		}
		opts := routingtable.ClientOptions{}
		switch s.Code {
		case 1:
			opts.BestOnly = true
		case 2:
			opts.EcmpOnly = true
		default:
			opts.MaxPaths = uint(s.N)
		}
		c := &recClient{name: fmt.Sprintf("client%d.%d", s.Peer, o.regs), opts: opts, held: map[Prefix]map[int]int{}, active: true, env: w.Env}
		o.regs++
		o.clients[s.Peer] = c
		simrt.LabelPointer(c)
		w.Go("LocRIB.RegisterWithOptions", func() { o.rib.RegisterWithOptions(c, opts) })
	case "unregister":
		c := o.clients[s.Peer]
		if c == nil || !c.active {
			return
		}
		w.Go("LocRIB.Unregister", func() { o.rib.Unregister(c); c.active = false })
	case "refresh":
		c := o.clients[s.Peer]
		if c == nil || !c.active {
			return
		}
		w.Go("LocRIB.RefreshClient", func() { o.rib.RefreshClient(c) })
	}
	if len(w.PendingTasks()) > 0 {
		return // wedged: the executor reports it
	}
	o.check(w, fmt.Sprintf("after op %d (%s)", i, s.Label))
}

func (o *c04Oracle) check(w *World, when string) {
	var names []int
	for k := range o.clients {
		names = append(names, k)
	}
	sort.Ints(names)
	for _, k := range names {
		c := o.clients[k]
		if len(c.late) > 0 {
			w.Env.Violate("C04", "callback_after_unregister", "%s: %s received %v after Unregister returned", when, c.name, c.late)
			c.late = nil
		}
		if !c.active {
			continue
		}
		for _, r := range o.rib.Dump() {
			pfx := FromBnetPrefix(r.Prefix())
			ps := r.Paths()
			n := 0
			switch {
			case c.opts.BestOnly:
				n = 1
			case c.opts.EcmpOnly:
				n = int(r.ECMPPathCount())
			default:
				n = int(c.opts.MaxPaths)
			}
			if n > len(ps) {
				n = len(ps)
			}
			want := map[int]bool{}
			for _, p := range ps[:n] {
				want[candIndex(p)] = true
			}
			got := map[int]bool{}
			for idx := range c.held[pfx] {
				got[idx] = true
			}
			if fmt.Sprint(keysOf(want)) != fmt.Sprint(keysOf(got)) {
				w.Env.Violate("C04", "client_set_differs", "%s: %s (%+v) holds paths %v for %s, the Loc-RIB's selection admits %v (Loc-RIB order %v, ecmp %d)", when, c.name, c.opts, keysOf(got), pfx, keysOf(want), orderOf(ps), r.ECMPPathCount())
			}
		}
		// prefixes the client still holds although the Loc-RIB has no route
		for pfx, m := range c.held {
			if len(m) > 0 && o.rib.Get(ToBnetPrefix(pfx)) == nil {
				w.Env.Violate("C04", "client_holds_removed_prefix", "%s: %s still holds %v for %s which is no longer in the Loc-RIB", when, c.name, keysOfCount(m), pfx)
			}
		}
	}
}

func keysOf(m map[int]bool) []int {
	var out []int
	for k := range m {
		out = append(out, k)
	}
	sort.Ints(out)
	return out
}
func keysOfCount(m map[int]int) []int {
	var out []int
	for k := range m {
		out = append(out, k)
	}
	sort.Ints(out)
	return out
}
func orderOf(ps []*route.Path) []int {
	var out []int
	for _, p := range ps {
		out = append(out, candIndex(p))
	}
	return out
}

func (o *c04Oracle) AfterStep(w *World, i int, s *Step) {
	if s.Kind == "par" && len(w.PendingTasks()) == 0 {
		o.check(w, fmt.Sprintf("after concurrent step %d", i))
	}
}
func (o *c04Oracle) Final(w *World) {
	adds, removes, regs := 0, 0, 0
	for _, c := range o.clients {
		adds += c.adds
		removes += c.removes
		regs++
	}
	w.Data["nontrivial"] = adds > 0 && removes > 0 && regs > 0
}

func init() {
	bgpProps["C02"] = propDef{Gen: genC02, Oracles: func(p *Plan) []Oracle { return []Oracle{&c02Oracle{}} }}
	bgpProps["C04"] = propDef{Gen: genC04, Oracles: func(p *Plan) []Oracle { return []Oracle{&c04Oracle{}} }}
}

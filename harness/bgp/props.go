package bgp

import "testing"

// Property registry of the bgpsim engine: for each property the plan generator
// (workload + schedule/fault space) and the oracles that judge it.

type propDef struct {
	Gen     func(seed uint64) *Plan
	Oracles func(p *Plan) []Oracle
	Setup   func(w *World)
	Twin    func(t *testing.T, p *Plan, res *RunResult) // optional metamorphic second run
	// KeepStep marks steps the shrinker must not remove (the skeleton that gives the plan its
	// meaning, e.g. the configuration loads of C36 that the twin run is compared with)
	KeepStep func(s *Step) bool
}

func pipeline(props ...string) func(p *Plan) []Oracle {
	return func(p *Plan) []Oracle {
		m := map[string]bool{}
		for _, x := range props {
			m[x] = true
		}
		return []Oracle{&PipelineOracle{Props: m}}
	}
}

var bgpProps = map[string]propDef{}

func init() {
	bgpProps["C20"] = propDef{Gen: genC20, Oracles: pipeline("C20")}
	bgpProps["C05"] = propDef{Gen: genC05, Oracles: pipeline("C05")}
	bgpProps["C08"] = propDef{Gen: genC08, Oracles: pipeline("C08")}
	bgpProps["C09"] = propDef{Gen: genC09, Oracles: pipeline("C09")}
	bgpProps["C10"] = propDef{Gen: genC10, Oracles: pipeline("C10")}
	bgpProps["C11"] = propDef{Gen: genC11, Oracles: pipeline("C11")}
	bgpProps["C07"] = propDef{Gen: genC07, Oracles: pipeline("C07")}
	bgpProps["C06"] = propDef{Gen: genC06, Oracles: pipeline("C06")}
}

// C20: valid UPDATEs with 1..N NLRI, distinct path ids, mixed announce/withdraw, both encodings.
func genC20(seed uint64) *Plan {
	pr := DefaultProfile()
	pr.MultiNLRIProb = 0.7
	pr.AddPathRXProb = 0.5
	pr.AddPathTXProb = 0.1
	pr.V6Prob = 0.5
	pr.MPv4Prob = 0.3
	pr.ASN2Prob = 0.15
	pr.W = map[string]int{"announce": 10, "withdraw": 5, "wait": 1}
	pr.FragmentProb = 0.2
	g := newGen("C20", seed, pr)
	g.connectAll()
	g.workload()
	return g.plan
}

// C05: import stage with policies, flaps.
func genC05(seed uint64) *Plan {
	pr := DefaultProfile()
	pr.ImportKinds = []string{"accept", "rejectsome", "rewrite", "rewrite"}
	pr.AddPathRXProb = 0.4
	pr.W = map[string]int{"announce": 10, "withdraw": 4, "wait": 1, "peer_notify": 2, "reconnect": 2}
	pr.ReconnectProb = 0.7
	pr.IneligibleProb = 0.15 // an eligible announcement may be replaced by one that is stored but not eligible
	pr.RoleProb = 0.2
	g := newGen("C05", seed, pr)
	g.connectAll()
	g.workload()
	return g.plan
}

// C08: export stage across session kinds, add-path send, export policies, statics.
func genC08(seed uint64) *Plan {
	pr := DefaultProfile()
	pr.MinPeers, pr.MaxPeers = 3, 5
	pr.ExportKinds = []string{"accept", "accept", "rejectsome", "rewrite"}
	pr.AddPathTXProb = 0.45
	pr.RoleProb = 0.3
	pr.W = map[string]int{"announce": 10, "withdraw": 4, "wait": 1, "static_add": 2, "static_del": 1}
	g := newGen("C08", seed, pr)
	if g.r.Chance(0.4) {
		// sessions that come up (again) while the Loc-RIB already holds several paths per prefix:
		// the initial dump to a new Adj-RIB-Out has to make the same selection as the incremental updates
		pr.W["peer_notify"], pr.W["reconnect"] = 1, 2
		pr.ReconnectProb = 0.8
		g.prof = pr
	}
	g.connectAll()
	g.workload()
	return g.plan
}

// C09: export rule table on the wire, rich attributes and roles.
func genC09(seed uint64) *Plan {
	pr := DefaultProfile()
	pr.MinPeers, pr.MaxPeers = 3, 5
	pr.RichAttrProb = 0.8
	pr.LongPathProb = 0.04
	pr.RoleProb = 0.5
	pr.AddPathTXProb = 0.3
	pr.W = map[string]int{"announce": 10, "withdraw": 3, "wait": 1, "peer_close": 1, "reconnect": 1, "export": 1}
	pr.ReconnectProb = 0.8
	g := newGen("C09", seed, pr)
	g.connectAll()
	g.workload()
	return g.plan
}

// C10: timing of route changes against the aggregation tick; withdraw while queued.
func genC10(seed uint64) *Plan {
	pr := DefaultProfile()
	pr.MinPeers, pr.MaxPeers = 2, 3
	pr.NPrefixes = 3
	pr.AddPathTXProb = 0.3
	pr.AggrChoices = []int64{5000, 20000, 100000}
	pr.W = map[string]int{"announce": 8, "withdraw": 8, "wait": 1, "stall": 2}
	pr.BigGapProb = 0.01
	pr.MinSteps, pr.MaxSteps = 10, 40
	g := newGen("C10", seed, pr)
	// goroutines that write to a neighbour (update sender flush, withdrawals from the tables) are
	// interleaved at every write and lock acquisition by the seeded scheduler in half of the runs
	g.plan.Sim.GateProb = pick(g.r, []float64{0, 0, 0.5, 1})
	g.plan.Sim.Sticky = pick(g.r, []float64{0, 0.5})
	g.connectAll()
	g.workload()
	return g.plan
}

// C11: add-path send with long add/remove/re-add cycles.
func genC11(seed uint64) *Plan {
	pr := DefaultProfile()
	pr.MinPeers, pr.MaxPeers = 3, 4
	pr.AddPathTXProb = 0.9
	pr.NPrefixes = 3
	pr.RoleProb = 0.3
	pr.AddPathRXProb = 0.5
	pr.W = map[string]int{"announce": 8, "withdraw": 7, "wait": 1, "clone": 5}
	// several neighbours of one AS (iBGP ones) so that paths can agree in everything but one attribute
	pr.KindWeights = map[string]int{"ebgp": 2, "rs": 1, "ibgp": 3, "rr": 3}
	pr.MinSteps, pr.MaxSteps = 15, 60
	g := newGen("C11", seed, pr)
	g.connectAll()
	g.workload()
	return g.plan
}

// C07: every way of leaving Established.
func genC07(seed uint64) *Plan {
	pr := DefaultProfile()
	pr.HoldChoices = []uint16{9, 30, 90}
	pr.ImportKinds = []string{"accept", "rewrite"}
	pr.W = map[string]int{"announce": 10, "withdraw": 2, "wait": 1, "peer_close": 2, "peer_notify": 2, "peer_silent": 2,
		"fail_write": 1, "dispose": 1, "raw_garbage": 2, "reconnect": 3}
	pr.ReconnectProb = 0.6
	pr.BigGapProb = 0.15
	pr.AddPathRXProb = 0.4
	pr.IneligibleProb = 0.15 // stored but hidden paths next to eligible ones: the teardown has to step over them
	g := newGen("C07", seed, pr)
	if g.r.Chance(0.4) {
		// sessions with their own local AS: several ASNs contribute to loop detection in one VRF, each
		// teardown has to take exactly its own one back
		for i := range g.plan.Peers {
			if pc := &g.plan.Peers[i]; pc.AS != g.plan.DUT.LocalAS && g.r.Chance(0.6) {
				pc.LocalAS = 65010 + uint32(i)
			}
		}
	}
	g.connectAll()
	g.workload()
	return g.plan
}

// C06: ineligible announcements mixed with eligible ones, policy flips, late clients.
func genC06(seed uint64) *Plan {
	pr := DefaultProfile()
	pr.RoleProb = 0.5
	pr.ImportKinds = []string{"accept", "reject", "rewrite"}
	pr.W = map[string]int{"announce": 8, "withdraw": 2, "wait": 1, "import": 3, "peer_notify": 1, "peer_close": 1, "reconnect": 1}
	pr.ReconnectProb = 0.5
	pr.IneligibleProb = 0.5
	g := newGen("C06", seed, pr)
	if g.r.Chance(0.4) {
		// sessions with their own local AS: several local ASNs contribute to the VRF's loop detection
		// and leave it again when their session goes down
		for i := range g.plan.Peers {
			if pc := &g.plan.Peers[i]; pc.AS != g.plan.DUT.LocalAS && g.r.Chance(0.6) {
				pc.LocalAS = 65010 + uint32(i)
			}
		}
	}
	g.connectAll()
	g.workload()
	return g.plan
}

package bgp

import (
	"fmt"
	"time"

	biolog "github.com/bio-routing/bio-rd/util/log"
)

// The FSM's own record of its state changes ("FSM: Neighbor state change" with the reason),
// captured through bio-rd's public logger seam (util/log.SetLogger). Unlike state samples taken
// at the plan's steps it misses no transition: a session that enters OpenSent and leaves it again
// between two observations is seen. Each entry also snapshots how many byte deliveries and
// connection ends the scripted neighbours had produced by then, so that an oracle can ask what
// could have caused the transition.

type fsmTransition struct {
	At         time.Duration
	Peer       string
	From, To   string
	Reason     string
	Deliveries int64 // bytes delivered to the DUT by any neighbour connection so far (count of deliveries)
	Closes     int64 // connections ended or reset by a neighbour so far
}

type captureLogger struct {
	env    *Env
	fields biolog.Fields
}

func (l captureLogger) Errorf(string, ...interface{}) {}
func (l captureLogger) Infof(string, ...interface{})  {}
func (l captureLogger) Debugf(string, ...interface{}) {}
func (l captureLogger) Error(string)                  {}
func (l captureLogger) Debug(string)                  {}
func (l captureLogger) Info(msg string) {
	if l.env == nil || msg != "FSM: Neighbor state change" {
		return
	}
	e := l.env
	t := fsmTransition{At: e.Sim.Now(), Peer: fmt.Sprint(l.fields["peer"]), From: fmt.Sprint(l.fields["last_state"]),
		To: fmt.Sprint(l.fields["new_state"]), Reason: fmt.Sprint(l.fields["reason"])}
	e.mu.Lock()
	t.Deliveries, t.Closes = e.peerDeliveries, e.peerCloses
	e.Transitions = append(e.Transitions, t)
	e.mu.Unlock()
}
func (l captureLogger) WithFields(f biolog.Fields) biolog.LoggerInterface {
	if l.env == nil {
		return l
	}
	return captureLogger{env: l.env, fields: f}
}
func (l captureLogger) WithError(error) biolog.LoggerInterface { return l }

// CaptureFSMLog starts recording FSM state changes of this run (until Close).
func (e *Env) CaptureFSMLog() {
	e.capturing = true
	biolog.SetLogger(captureLogger{env: e})
}

func (e *Env) stopFSMLog() {
	if e.capturing {
		biolog.SetLogger(captureLogger{})
		e.capturing = false
	}
}

func (e *Env) notePeerDelivery() {
	e.mu.Lock()
	e.peerDeliveries++
	e.mu.Unlock()
}

func (e *Env) notePeerClose() {
	e.mu.Lock()
	e.peerCloses++
	e.mu.Unlock()
}

package bgp

import (
	"fmt"
	"sort"
	"strings"

	bnet "github.com/bio-routing/bio-rd/net"
	"github.com/bio-routing/bio-rd/route"
	"github.com/bio-routing/bio-rd/routingtable"
	"github.com/bio-routing/bio-rd/routingtable/locRIB"
	"verif.local/simrt"
)

// ribsim: the same runtime driving the table APIs directly. Plans use custom step kinds
// that are executed by handlers registered in World.Data (see exec: default case).

// ---------------------------------------------------------------------------------------
// C01: routing table lookups agree with a prefix-map model

type c01State struct {
	rt    [2]*routingtable.RoutingTable // [0] IPv4, [1] IPv6
	rib   [2]*locRIB.LocRIB             // the same operations mirrored on a Loc-RIB
	model [2]map[Prefix][]uint32        // prefix -> multiset of path ids (next hops)
	pool  []Prefix
}

func staticPath(nh uint32) *route.Path {
	return &route.Path{Type: route.StaticPathType, StaticPath: &route.StaticPath{NextHop: bnet.IPv4(nh).Dedup()}}
}

func genC01(seed uint64) *Plan {
	r := propRand("C01", seed)
	pl := &Plan{Prop: "C01", Engine: "ribsim", Seed: seed, DUT: DUTCfg{RouterID: 1, LocalAS: 65000}}
	pl.Sim = SimCfg{ShuffleMaps: r.Chance(0.5)}
	// prefix domain: stems with nested lengths, siblings that differ in one chosen bit, default and host routes
	var pool []Prefix
	addStem := func(v6 bool) {
		var p Prefix
		p.V6 = v6
		nbytes, bits := 4, 32
		if v6 {
			nbytes, bits = 16, 128
		}
		for i := 0; i < nbytes; i++ {
			p.Addr[i] = byte(r.Uint64())
		}
		if r.Chance(0.3) {
			// long common stem with all-ones / all-zeros tails
			for i := nbytes / 2; i < nbytes; i++ {
				p.Addr[i] = pick(r, []byte{0, 0xff})
			}
		}
		lens := map[int]bool{0: true, bits: true, bits - 1: true, 1: true}
		for k := 0; k < 6+r.Intn(8); k++ {
			lens[r.Intn(bits+1)] = true
		}
		for l := range lens {
			q := p
			q.Len = uint8(l)
			pool = append(pool, q.Masked())
			if l > 0 && r.Chance(0.6) {
				// sibling: same stem, last bit of the prefix flipped
				s := p
				s.Len = uint8(l)
				s.Addr[(l-1)/8] ^= 1 << (7 - uint((l-1)%8))
				pool = append(pool, s.Masked())
			}
		}
	}
	nst := 1 + r.Intn(3)
	for i := 0; i < nst; i++ {
		addStem(r.Chance(0.4))
	}
	// canonical order + dedup
	seen := map[Prefix]bool{}
	var uniq []Prefix
	sort.Slice(pool, func(i, j int) bool { return pool[i].String() < pool[j].String() })
	for _, p := range pool {
		if !seen[p] {
			seen[p] = true
			uniq = append(uniq, p)
		}
	}
	pool = uniq
	n := 20 + r.Intn(200)
	for i := 0; i < n; i++ {
		op := weighted(r, map[string]int{"add": 10, "remove": 5, "replace": 2, "removepfx": 2}, []string{"add", "remove", "replace", "removepfx"})
		pl.Steps = append(pl.Steps, Step{Kind: "rt_op", Label: op, Pfx: []Prefix{pick(r, pool)}, NH: 0x0a000001 + uint32(r.Intn(4))})
	}
	// the query domain travels with the plan
	pl.Steps = append(pl.Steps, Step{Kind: "rt_pool", Pfx: pool})
	return pl
}

type c01Oracle struct{ st *c01State }

func (o *c01Oracle) Init(w *World) {
	st := &c01State{}
	for i := 0; i < 2; i++ {
		st.rt[i] = routingtable.NewRoutingTable()
		st.rib[i] = locRIB.New(fmt.Sprintf("c01-%d", i))
		st.model[i] = map[Prefix][]uint32{}
	}
	for _, s := range w.Plan.Steps {
		if s.Kind == "rt_pool" {
			st.pool = s.Pfx
		}
	}
	o.st = st
	w.Data["exec:rt_pool"] = func(w *World, i int, s *Step) {}
	w.Data["exec:rt_op"] = func(w *World, i int, s *Step) { o.apply(w, i, s) }
}

func (o *c01Oracle) apply(w *World, i int, s *Step) {
	st := o.st
	pfx := s.Pfx[0]
	fi := b2i(pfx.V6)
	bp := ToBnetPrefix(pfx)
	m := st.model[fi]
	switch s.Label {
	case "add":
		st.rt[fi].AddPath(bp, staticPath(s.NH))
		m[pfx] = append(m[pfx], s.NH)
	case "remove":
		st.rt[fi].RemovePath(bp, staticPath(s.NH)) // removing what is not stored is a no-op
		for k, nh := range m[pfx] {
			if nh == s.NH {
				m[pfx] = append(m[pfx][:k:k], m[pfx][k+1:]...)
				break
			}
		}
		if len(m[pfx]) == 0 {
			delete(m, pfx)
		}
	case "replace":
		st.rt[fi].ReplacePath(bp, staticPath(s.NH))
		m[pfx] = []uint32{s.NH}
	case "removepfx":
		st.rt[fi].RemovePfx(bp)
		delete(m, pfx)
	}
	o.check(w, fi, fmt.Sprintf("after op %d (%s %s nh=%d)", i, s.Label, pfx, s.NH))
}

func prefixEverStored(st *c01State, fi int, p Prefix) bool { return false }

func pathIDs(r *route.Route) []uint32 {
	var out []uint32
	for _, p := range r.Paths() {
		if p.StaticPath != nil && p.StaticPath.NextHop != nil {
			out = append(out, p.StaticPath.NextHop.ToUint32())
		}
	}
	sort.Slice(out, func(i, j int) bool { return out[i] < out[j] })
	return out
}

func sortedIDs(x []uint32) []uint32 {
	out := append([]uint32(nil), x...)
	sort.Slice(out, func(i, j int) bool { return out[i] < out[j] })
	return out
}

func prefixesOf(rs []*route.Route) []string {
	var out []string
	for _, r := range rs {
		out = append(out, FromBnetPrefix(r.Prefix()).String())
	}
	sort.Strings(out)
	return out
}

func (o *c01Oracle) check(w *World, fi int, when string) {
	st := o.st
	rt := st.rt[fi]
	m := st.model[fi]
	// dump and count: each stored prefix exactly once
	var want []string
	for p := range m {
		want = append(want, p.String())
	}
	sort.Strings(want)
	got := prefixesOf(rt.Dump())
	if strings.Join(want, ",") != strings.Join(got, ",") {
		w.Env.Violate("C01", "dump", "%s: dump lists %v, model holds %v", when, got, want)
		return
	}
	if int(rt.GetRouteCount()) != len(m) {
		w.Env.Violate("C01", "route_count", "%s: route count %d, model holds %d prefixes", when, rt.GetRouteCount(), len(m))
	}
	for _, q := range st.pool {
		if q.V6 != (fi == 1) {
			continue
		}
		bq := ToBnetPrefix(q)
		// exact lookup
		r := rt.Get(bq)
		wantIDs := sortedIDs(m[q])
		var gotIDs []uint32
		if r != nil {
			gotIDs = pathIDs(r)
		}
		if fmt.Sprint(wantIDs) != fmt.Sprint(gotIDs) {
			w.Env.Violate("C01", "get", "%s: Get(%s) returns paths %v, stored %v", when, q, gotIDs, wantIDs)
		}
		// covering lookup: stored prefixes that contain or equal q
		var wc, wl []string
		for p := range m {
			if p.Contains(q) {
				wc = append(wc, p.String())
			}
			if q.Contains(p) {
				wl = append(wl, p.String())
			}
		}
		sort.Strings(wc)
		sort.Strings(wl)
		gc := prefixesOf(rt.LPM(bq))
		if strings.Join(wc, ",") != strings.Join(gc, ",") {
			w.Env.Violate("C01", "lpm", "%s: LPM(%s) lists %v, stored covering prefixes %v", when, q, gc, wc)
		}
		// more specifics: q (if stored) and every stored prefix inside it, even when q itself is not stored
		gl := prefixesOf(rt.GetLonger(bq))
		if strings.Join(wl, ",") != strings.Join(gl, ",") {
			as := "get_longer"
			if len(m[q]) == 0 {
				as = "get_longer_query_not_stored"
			}
			w.Env.Violate("C01", as, "%s: GetLonger(%s) lists %v, stored prefixes inside it %v", when, q, gl, wl)
		}
	}
}

func (o *c01Oracle) AfterStep(w *World, i int, s *Step) {}

// Final states the run's non-triviality: the history stored nested prefixes, removed a stored
// path at least once and re-added a prefix after its node had become a dummy.
func (o *c01Oracle) Final(w *World) {
	nested, removedStored, readd := false, false, false
	seen := map[Prefix]int{} // 1 stored, 2 was stored and is now empty
	cur := map[Prefix]int{}
	var lens []string
	for _, s := range w.Plan.Steps {
		if s.Kind != "rt_op" {
			continue
		}
		p := s.Pfx[0]
		switch s.Label {
		case "add", "replace":
			if seen[p] == 2 {
				readd = true
			}
			for q := range cur {
				if q != p && (q.Contains(p) || p.Contains(q)) {
					nested = true
				}
			}
			if s.Label == "replace" {
				cur[p] = 0
			}
			cur[p]++
			seen[p] = 1
		case "remove", "removepfx":
			if cur[p] > 0 {
				removedStored = true
				if s.Label == "removepfx" {
					cur[p] = 0
				} else {
					cur[p]--
				}
				if cur[p] == 0 {
					delete(cur, p)
					seen[p] = 2
				}
			}
		}
		lens = append(lens, fmt.Sprintf("%s%d", s.Label[:2], p.Len))
	}
	w.Data["nontrivial"] = nested && removedStored
	w.Data["shape"] = strings.Join(lens, ",")
	if readd {
		w.Env.probe("readd_after_node_became_dummy")
	}
	if nested {
		w.Env.probe("nested_prefixes_stored")
	}
}

var _ = simrt.Hash64

func init() {
	bgpProps["C01"] = propDef{Gen: genC01, Oracles: func(p *Plan) []Oracle { return []Oracle{&c01Oracle{}} }}
}

package bgp

import (
	"fmt"
	"strings"
	"time"

	"verif.local/simrt"
)

// C23: the implementation's state traces are behaviours of the RFC 4271 FSM.
// Generated event sequences drive one neighbour (scripted by hand, no automatic
// replies); after every event the abstract state (state, routes attached, connection
// closed) is read through the accessor and the step is checked against an executable
// reference relation (set of permitted successor states per state and event class) plus
// the invariants of the property. The exhaustive enumeration of the abstract model that
// the property's quantifier also mentions is model checking and is not done here.

// event classes
const (
	evConnect      = "tcp_established" // neighbour connects in
	evOpenValid    = "open_valid"      // OPEN matching the configuration
	evOpenInvalid  = "open_invalid"    // OPEN that must be rejected
	evKeepalive    = "keepalive"
	evUpdate       = "update_valid"
	evUpdateBad    = "update_malformed"
	evNotification = "notification"
	evHeaderError  = "header_error"
	evTCPClose     = "tcp_fails"
	evHoldExpire   = "hold_timer_expires"
	evWait         = "time_passes"
	evStop         = "manual_stop"
)

// allowed successor states per (state, event). "idle" stands for Idle with the connection released.
var rfcFSM = map[string]map[string][]string{
	"idle": {
		evConnect: {"openSent", "active", "connect"},
	},
	"openSent": {
		evOpenValid: {"openConfirm"}, evOpenInvalid: {"idle"}, evKeepalive: {"idle"}, evUpdate: {"idle"}, evUpdateBad: {"idle"},
		evNotification: {"idle"}, evHeaderError: {"idle"}, evTCPClose: {"idle", "active"}, evHoldExpire: {"idle"}, evWait: {"openSent"}, evStop: {"idle"},
	},
	"openConfirm": {
		evOpenValid: {"idle"}, evOpenInvalid: {"idle"}, evKeepalive: {"established"}, evUpdate: {"idle"}, evUpdateBad: {"idle"},
		evNotification: {"idle"}, evHeaderError: {"idle"}, evTCPClose: {"idle"}, evHoldExpire: {"idle"}, evWait: {"openConfirm"}, evStop: {"idle"},
	},
	"established": {
		evOpenValid: {"idle"}, evOpenInvalid: {"idle"}, evKeepalive: {"established"}, evUpdate: {"established"}, evUpdateBad: {"idle"},
		evNotification: {"idle"}, evHeaderError: {"idle"}, evTCPClose: {"idle"}, evHoldExpire: {"idle"}, evWait: {"established"}, evStop: {"idle"},
	},
}

func genC23(seed uint64) *Plan {
	r := propRand("C23", seed)
	pl := newPlan("C23", seed, r)
	as := uint32(65001)
	if r.Chance(0.3) {
		as = 65000
	}
	pc := basicPeer(0, as)
	pc.ManualOpen = true
	hold := pick(r, []uint16{30, 9, 90})
	if seed%3 != 0 && r.Chance(0.2) {
		hold = 0 // no hold and keepalive timers once the OPENs are exchanged (RFC 4271 4.2 / 8.2.2)
	}
	pc.PeerHold, pc.DUTHold = hold, hold
	pc.IPv6 = r.Chance(0.4) // a second address family: both are attached and detached together
	pc.Import = pick(r, []*PolicySpec{AcceptAll(), AcceptAll(), {Terms: []TermSpec{{Actions: []ActionSpec{{Kind: "lp", V: 150}}}, {Actions: []ActionSpec{{Kind: "accept"}}}}}})
	pl.Peers = []PeerCfg{pc}
	tag := uint32(20000)
	update := func(bad bool) Step {
		tag++
		asns := []uint32{}
		if as != 65000 {
			asns = append(asns, as)
		}
		asns = append(asns, tag)
		a := AttrSpec{ASPath: []Segment{{2, asns}}, NextHop: 0x0a000001}
		if as == 65000 {
			a.LocalPref = u32p(100)
		}
		raw := EncodeUpdate(UpdateSpec{Announce: []NLRI{{Prefix: P4(198, 18, byte(tag), 0, 24)}}, Attrs: a.Attrs(false), ASN4: true})
		st := Step{Kind: "raw", Label: evUpdate, N: int(tag)}
		if bad {
			off := 19 + 2
			raw[off], raw[off+1] = 0x0f, 0xff // attribute length far beyond the message
			st.Label = evUpdateBad
		}
		st.Hex = hexEncode(raw)
		return st
	}
	badOpen := func() *OpenSpec {
		o := openSpecFor(pc)
		switch r.Intn(4) {
		case 3:
			o.HoldTime = uint16(1 + r.Intn(2)) // RFC 4271 4.2: hold times of one or two seconds must be rejected
		case 0:
			o.AS = pc.AS + 7
		case 1:
			o.ID = 0
		default:
			o.Version = 3
		}
		return &o
	}
	n := 4 + r.Intn(10)
	if seed%3 == 0 {
		// the DUT is the active side: it starts by itself after the reconnect interval, dials through
		// the Dial seam (the scripted endpoint accepts or refuses), retries on the ConnectRetry timer
		// (one minute) and starts over after every return to Idle
		pc.Active, pc.DialTarget, pc.ReconnectUS = true, true, 2_000_000
		pl.Peers = []PeerCfg{pc}
		pl.Params = map[string]int64{"active": 1}
		if r.Chance(0.4) {
			pl.Steps = append(pl.Steps, Step{GapUS: 1000, Kind: "dial_refuse", On: true})
		}
		pl.Steps = append(pl.Steps, Step{GapUS: 2_500_000, Kind: "wait", Label: evWait})
		for i := 0; i < n; i++ {
			gap := int64(2000 + r.Intn(300_000))
			var st Step
			switch r.Intn(16) {
			case 0, 1, 2:
				st = Step{Kind: "send_open", Label: evOpenValid}
				if r.Chance(0.3) {
					// this session negotiates hold time 0 (the FSM has served sessions with timers before)
					o := openSpecFor(pc)
					o.HoldTime = 0
					st.Open = &o
				}
			case 3:
				st = Step{Kind: "send_open", Label: evOpenInvalid, Open: badOpen()}
			case 4, 5, 6:
				st = Step{Kind: "keepalive", Label: evKeepalive}
			case 7:
				st = update(false)
			case 8:
				st = update(true)
			case 9:
				st = Step{Kind: "peer_notify", Code: 6, Sub: 2, Label: evNotification}
			case 10:
				st = Step{Kind: "peer_close", On: r.Chance(0.5), Label: evTCPClose}
			case 11, 12:
				pl.Steps = append(pl.Steps, Step{GapUS: gap, Kind: "dial_refuse", On: r.Chance(0.5)})
				continue
			case 13:
				st, gap = Step{Kind: "wait", Label: evWait}, 65_000_000 // beyond the ConnectRetry timer
			default:
				st, gap = Step{Kind: "wait", Label: evWait}, int64(300_000+r.Intn(4_000_000))
			}
			st.GapUS, st.Peer = gap, 0
			pl.Steps = append(pl.Steps, st)
		}
		if r.Chance(0.25) {
			// the same FSM serves two complete sessions, the second one with hold time 0
			o := openSpecFor(pc)
			o.HoldTime = 0
			pl.Steps = append(pl.Steps,
				Step{GapUS: 66_000_000, Kind: "wait", Label: evWait},
				Step{GapUS: 50_000, Kind: "send_open", Label: evOpenValid},
				Step{GapUS: 50_000, Kind: "keepalive", Label: evKeepalive},
				Step{GapUS: 500_000, Kind: "peer_notify", Code: 6, Sub: 2, Label: evNotification},
				Step{GapUS: 66_000_000, Kind: "wait", Label: evWait},
				Step{GapUS: 50_000, Kind: "send_open", Label: evOpenValid, Open: &o},
				Step{GapUS: 50_000, Kind: "keepalive", Label: evKeepalive},
				Step{GapUS: 3_000_000, Kind: "wait", Label: evWait},
				Step{GapUS: 3_000_000, Kind: "wait", Label: evWait})
		}
		pl.TailUS = 500_000
		return pl
	}
	connected := false
	for i := 0; i < n; i++ {
		gap := int64(2000 + r.Intn(300_000))
		if !connected {
			pl.Steps = append(pl.Steps, Step{GapUS: gap, Kind: "connect", Label: evConnect})
			connected = true
			continue
		}
		var st Step
		switch r.Intn(14) {
		case 0, 1, 2:
			st = Step{Kind: "send_open", Label: evOpenValid}
		case 3:
			st = Step{Kind: "send_open", Label: evOpenInvalid, Open: badOpen()}
		case 4, 5, 6:
			st = Step{Kind: "keepalive", Label: evKeepalive}
		case 7, 8:
			st = update(false)
		case 9:
			st = update(true)
		case 10:
			st = Step{Kind: "peer_notify", Code: 6, Sub: 2, Label: evNotification}
			connected = false
		case 11:
			b := EncodeKeepalive()
			b[r.Intn(16)] = 0
			st = Step{Kind: "raw", Hex: hexEncode(b), Label: evHeaderError}
		case 12:
			st = Step{Kind: "peer_close", On: r.Chance(0.5), Label: evTCPClose}
			connected = false
		default:
			if r.Chance(0.5) {
				st = Step{Kind: "wait", Label: evWait}
				h := int(hold)
				if h == 0 {
					h = 9
				}
				gap = int64(1_000_000 + r.Intn(h*300_000))
			} else {
				// silence until every hold timer has expired (OpenSent uses the large RFC value)
				pl.Steps = append(pl.Steps, Step{GapUS: gap, Kind: "peer_silent", On: true, Label: "silence"})
				st = Step{Kind: "wait", Label: evHoldExpire}
				gap = 250_000_000
				connected = false
			}
		}
		st.GapUS = gap
		st.Peer = 0
		pl.Steps = append(pl.Steps, st)
		if st.Label == evHoldExpire {
			pl.Steps = append(pl.Steps, Step{GapUS: 1000, Kind: "peer_silent", On: false, Label: "unsilence"})
		}
	}
	pl.TailUS = 500_000
	return pl
}

type c23Oracle struct {
	state  string // reference state of the session on the current connection
	trace  []string
	conn   *Conn
	active bool           // the DUT is the active side of the session (plans with params.active)
	seenTr int            // FSM log entries already judged
	entry  *fsmTransition // the transition that entered the FSM's current state
}

func (o *c23Oracle) Init(w *World) {
	o.state = "idle"
	o.active = w.Plan.Params["active"] == 1
	w.Env.CaptureFSMLog()
}

// checkCauses (active side: one FSM, so the FSM's own transition log is one session's history):
// a session leaves OpenSent, OpenConfirm or Established for Idle only because of something -
// bytes or the end of the connection from the neighbour, or a timer, and the shortest timer that
// can end a session (the smallest hold time the plans configure, 9 s) cannot have run out less
// than 8 s after the state was entered. No C23 plan stops the session administratively.
func (o *c23Oracle) checkCauses(w *World) {
	trs := w.Env.Transitions
	for ; o.seenTr < len(trs); o.seenTr++ {
		t := trs[o.seenTr]
		if !o.active {
			continue
		}
		if (t.From == "openSent" || t.From == "openConfirm" || t.From == "established") && t.To == "idle" && o.entry != nil && o.entry.To == t.From {
			e := o.entry
			if t.Deliveries == e.Deliveries && t.Closes == e.Closes && t.At-e.At < 8*time.Second {
				w.Env.Violate("C23", "left_"+t.From+"_without_cause", "the session entered %s at %v (%s) and returned to Idle at %v (reason given: %q) although the neighbour sent nothing and did not end the connection in between and no session timer can expire that early",
					t.From, e.At, e.Reason, t.At, t.Reason)
			}
		}
		tt := t
		o.entry = &tt
	}
}

// what may happen to the active side's FSM merely because time passes (automatic start after
// the reconnect interval, ConnectRetry timer, a dialled connection coming up, hold timers)
// (transitively closed, several timers may expire between two observations: a session whose hold
// timer runs out goes to Idle, starts again and may be in OpenSent by the next look; what time
// alone can never do is reach OpenConfirm or Established, which need messages from the neighbour)
var rfcTime = map[string][]string{
	"idle":        {"idle", "connect", "active", "openSent"},
	"connect":     {"idle", "connect", "active", "openSent"},
	"active":      {"idle", "connect", "active", "openSent"},
	"openSent":    {"idle", "connect", "active", "openSent"},
	"openConfirm": {"idle", "connect", "active", "openSent", "openConfirm"},
	"established": {"idle", "connect", "active", "openSent", "established"},
}

// BeforeStep (active side only): the FSM moves on its own between the plan's events; the
// autonomous part of the trace must be in the model too, and the reference state follows it.
func (o *c23Oracle) BeforeStep(w *World, i int, s *Step) {
	o.checkCauses(w)
	if !o.active {
		return
	}
	got, _, _, _ := o.observe(w)
	ok := false
	for _, a := range rfcTime[o.state] {
		if a == got {
			ok = true
		}
	}
	if got != o.state {
		o.trace = append(o.trace, fmt.Sprintf("%s ..time..> %s", o.state, got))
	}
	if !ok {
		w.Env.Violate("C23", "autonomous_step_not_in_model_"+o.state, "trace %s: with nothing but time passing %s may become one of %v, the implementation is in %s", strings.Join(o.trace, " ; "), o.state, rfcTime[o.state], got)
	}
	o.state = got
}

// observe returns the abstract state of the session on the peer's current connection.
func (o *c23Oracle) observe(w *World) (state string, attached bool, closed bool, nfsm int) {
	p := w.Peers[0]
	fs := w.DUT.FSMs(p)
	nfsm = len(fs)
	state = "idle"
	for _, f := range fs {
		if p.conn != nil && f.Con == p.conn {
			state = f.State
			attached = f.RibsInitialized
		}
	}
	if o.active && len(fs) > 0 {
		// the one FSM of the actively opened session, whatever connection it currently has
		state, attached = fs[0].State, fs[0].RibsInitialized
	}
	if state == "cease" {
		state = "idle"
	}
	if p.conn != nil {
		closed = p.conn.ClosedByDUT()
	}
	return
}

func (o *c23Oracle) AfterStep(w *World, i int, s *Step) {
	ev := s.Label
	if ev == "" || ev == "silence" || ev == "unsilence" {
		return
	}
	p := w.Peers[0]
	// let the event propagate (network delay) before observing
	w.Env.Sim.RunFor(us(20_000))
	got, attached, closed, _ := o.observe(w)
	prev := o.state
	allowed, known := rfcFSM[prev][ev]
	if p.Cfg.DUTHold == 0 && (prev == "openConfirm" || prev == "established") && ev == evHoldExpire {
		// hold time 0 was negotiated: there is no hold timer that could expire in these states
		allowed = []string{prev}
	}
	if o.active && (ev == evWait || prev == "idle" || prev == "connect" || prev == "active") {
		// the active side without an open session: whatever the neighbour sends cannot arrive, only
		// the FSM's own timers act
		allowed, known = rfcTime[prev], true
	}
	o.trace = append(o.trace, fmt.Sprintf("%s --%s--> %s", prev, ev, got))
	if !o.active && prev == "idle" && ev != evConnect {
		// nothing can reach a session without a connection
		if got != "idle" {
			w.Env.Violate("C23", "step_not_in_model", "trace %s: event %s without a connection led to %s", strings.Join(o.trace, " ; "), ev, got)
		}
		o.state = got
		return
	}
	if known {
		ok := false
		for _, a := range allowed {
			if a == got {
				ok = true
			}
		}
		// a silent wait in Established/OpenConfirm shorter than the hold time keeps the state; the generator's
		// evWait gaps stay below the hold time only while the peer sends keepalives (Established); in OpenSent /
		// OpenConfirm nothing is sent, so a long wait may legitimately expire the hold timer
		if !ok && ev == evWait && got == "idle" && prev == "openConfirm" && p.Cfg.DUTHold != 0 {
			ok = true
		}
		if !ok {
			w.Env.Violate("C23", "step_not_in_model_"+prev+"_"+ev, "trace %s: in %s the event %s must lead to one of %v, the implementation went to %s", strings.Join(o.trace, " ; "), prev, ev, allowed, got)
		}
	}
	// invariants of the property
	for _, f := range w.DUT.FSMs(p) {
		if f.RibsInitialized != (f.State == "established") {
			w.Env.Violate("C23", "attached_iff_established", "trace %s: an FSM in state %s has routes attached=%v", strings.Join(o.trace, " ; "), f.State, f.RibsInitialized)
		}
		for _, fam := range f.Families {
			if fam.Initialized != (f.State == "established") {
				w.Env.Violate("C23", "family_attached_iff_established", "trace %s: an FSM in state %s has the RIBs of address family %d attached=%v", strings.Join(o.trace, " ; "), f.State, fam.AFI, fam.Initialized)
			}
		}
	}
	_ = attached
	if (prev == "openSent" || prev == "openConfirm" || prev == "established") && got == "idle" && !closed {
		w.Env.Violate("C23", "idle_without_closing_connection", "trace %s: returned to Idle from %s without closing the connection", strings.Join(o.trace, " ; "), prev)
	}
	if (ev == evUpdate || ev == evUpdateBad) && prev != "established" {
		tag := uint32(s.N)
		for pfx, ps := range w.DUT.LocRIBDump(false) {
			for _, c := range ps {
				if c.Tag() == tag {
					w.Env.Violate("C23", "update_processed_outside_established", "trace %s: UPDATE delivered in %s installed %s", strings.Join(o.trace, " ; "), prev, pfx)
				}
			}
		}
	}
	if ev == evUpdate && prev == "established" && got == "established" {
		tag := uint32(s.N)
		found := false
		for _, ps := range w.DUT.LocRIBDump(false) {
			for _, c := range ps {
				if c.Tag() == tag {
					found = true
				}
			}
		}
		if !found {
			w.Env.Violate("C23", "update_not_processed_in_established", "trace %s: valid UPDATE (tag %d) in Established left no route", strings.Join(o.trace, " ; "), tag)
		}
	}
	o.state = got
	if got == "idle" {
		w.Env.probe("c23_returned_to_idle_from_" + prev)
	}
}

func (o *c23Oracle) Final(w *World) { o.checkCauses(w) }

var _ = simrt.Hash64

func init() {
	bgpProps["C23"] = propDef{Gen: genC23, Oracles: func(p *Plan) []Oracle { return []Oracle{&c23Oracle{}} }}
}

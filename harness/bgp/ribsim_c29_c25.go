package bgp

import (
	"errors"
	"fmt"
	"io"
	"sort"
	"strings"

	risapi "github.com/bio-routing/bio-rd/cmd/ris/api"
	bnet "github.com/bio-routing/bio-rd/net"
	"github.com/bio-routing/bio-rd/risclient"
	"github.com/bio-routing/bio-rd/route"
	routeapi "github.com/bio-routing/bio-rd/route/api"
	"github.com/bio-routing/bio-rd/routingtable"
	"github.com/bio-routing/bio-rd/routingtable/adjRIBOut"
	"github.com/bio-routing/bio-rd/routingtable/filter"
	"github.com/bio-routing/bio-rd/routingtable/locRIB"
	"github.com/bio-routing/bio-rd/routingtable/mergedlocrib"
	"google.golang.org/grpc"
	"verif.local/simrt"
)

// ---------------------------------------------------------------------------------------
// C29: the merged RIB holds a route exactly while some source advertises it.
// The gRPC stream of risclient is stubbed: sources call the Client interface
// (AddRoute / RemoveRoute / DropAllBySrc) directly.

type mergeSrc struct{ name string }

func genC29(seed uint64) *Plan {
	r := propRand("C29", seed)
	pl := &Plan{Prop: "C29", Engine: "ribsim", Seed: seed, DUT: DUTCfg{RouterID: 1, LocalAS: 65000}}
	pl.Sim = SimCfg{ShuffleMaps: r.Chance(0.7)}
	nsrc := 2 + r.Intn(3)
	nroutes := 2 + r.Intn(4)
	pl.Params = map[string]int64{"sources": int64(nsrc), "routes": int64(nroutes)}
	if r.Chance(0.5) {
		// the sources are real RIS clients: updates arrive on their ObserveRIB stream (simulated
		// transport) and a drop is the stream ending with EOF or a transport error
		pl.Params["ris"] = 1
	}
	concurrent := r.Chance(0.4)
	if concurrent {
		pl.Sim.GateProb = pick(r, []float64{0.5, 1})
		pl.Sim.Sticky = pick(r, []float64{0, 0.5})
	}
	n := 6 + r.Intn(30)
	mk := func() Step {
		switch weighted(r, map[string]int{"add": 10, "remove": 6, "drop": 2}, []string{"add", "remove", "drop"}) {
		case "add":
			return Step{Kind: "mg_op", Label: "add", Peer: r.Intn(nsrc), N: r.Intn(nroutes)}
		case "remove":
			return Step{Kind: "mg_op", Label: "remove", Peer: r.Intn(nsrc), N: r.Intn(nroutes)}
		}
		return Step{Kind: "mg_op", Label: "drop", Peer: r.Intn(nsrc)}
	}
	for i := 0; i < n; i++ {
		if concurrent && r.Chance(0.5) {
			// several sources act at once (each source is one sequential caller)
			var sub []Step
			used := map[int]bool{}
			for j := 0; j < 2+r.Intn(2); j++ {
				st := mk()
				if used[st.Peer] {
					continue
				}
				used[st.Peer] = true
				sub = append(sub, st)
			}
			pl.Steps = append(pl.Steps, Step{Kind: "par", Par: sub})
		} else {
			pl.Steps = append(pl.Steps, mk())
		}
	}
	return pl
}

type c29Op struct {
	Kind  string
	Src   int
	Route int
}

// risStream is the simulated ObserveRIB stream of one source session.
type risStream struct {
	grpc.ClientStream
	ch chan *risapi.RIBUpdate
	mu simrt.InternalLock
	er error
}

func (s *risStream) Recv() (*risapi.RIBUpdate, error) {
	u, ok := <-s.ch // blocks durably inside the bubble
	if !ok {
		s.mu.Lock()
		defer s.mu.Unlock()
		return nil, s.er
	}
	return u, nil
}

type risSource struct {
	cl     *risclient.RISClient
	stream *risStream      // the session updates are currently written to
	next   chan *risStream // sessions in the order the client will serve them
}

type c29Oracle struct {
	ris     []*risSource
	rib     *locRIB.LocRIB
	merged  *mergedlocrib.MergedLocRIB
	srcs    []*mergeSrc
	routes  []*routeapi.Route
	rts     []*route.Route
	model   map[int]map[int]bool // route -> set of sources advertising it
	seq     int64
	pending int
	dups    int
}

func (o *c29Oracle) Init(w *World) {
	o.rib = locRIB.New("merged")
	o.merged = mergedlocrib.New(o.rib)
	o.model = map[int]map[int]bool{}
	for i := 0; i < int(w.Plan.Params["sources"]); i++ {
		s := &mergeSrc{name: fmt.Sprintf("src%d", i)}
		simrt.LabelPointer(s)
		o.srcs = append(o.srcs, s)
	}
	for i := 0; i < int(w.Plan.Params["routes"]); i++ {
		c := CandSpec{LocalPref: 100, ASLen: 1, BGPID: 1, Cluster: -1, Source: 0x0a000001, NextHop: 0x0a000001 + uint32(i), EBGP: true}
		r := route.NewRoute(ToBnetPrefix(P4(192, 0, 2, byte(i/2*4), 30)), c.build(i))
		o.rts = append(o.rts, r)
		o.routes = append(o.routes, r.ToProto())
	}
	if w.Plan.Params["ris"] == 1 {
		for i := range o.srcs {
			cc := &grpc.ClientConn{} // the source's identity in the merged RIB
			rs := &risSource{cl: risclient.New(&risclient.Request{}, cc, o.merged), next: make(chan *risStream, 256)}
			o.ris = append(o.ris, rs)
			o.startStream(w, i)
			// like RISClient.run: one goroutine per source serves one stream after the other
			go func() {
				for st := range rs.next {
					risclient.VerifServiceLoop(rs.cl, st)
				}
			}()
		}
	}
	w.Data["exec:mg_op"] = func(w *World, i int, s *Step) { o.apply(w, i, s) }
}

// startStream opens the next session of RIS source i.
func (o *c29Oracle) startStream(w *World, i int) {
	rs := o.ris[i]
	st := &risStream{ch: make(chan *risapi.RIBUpdate, 64)}
	rs.stream = st
	rs.next <- st
}

func (o *c29Oracle) apply(w *World, i int, s *Step) {
	src := o.srcs[s.Peer]
	par := w.Env.Sim.HoldSettle > 0
	name := fmt.Sprintf("%s(%s,r%d)", s.Label, src.name, s.N)
	if s.Label == "add" && o.model[s.N][s.Peer] {
		o.dups++
	}
	run := func() {
		if o.ris != nil {
			// through the source's stream; the receive loop does the rest
			rs := o.ris[s.Peer]
			switch s.Label {
			case "add":
				rs.stream.ch <- &risapi.RIBUpdate{Advertisement: true, Route: o.routes[s.N]}
			case "remove":
				rs.stream.ch <- &risapi.RIBUpdate{Advertisement: false, Route: o.routes[s.N]}
			case "drop":
				rs.stream.mu.Lock()
				rs.stream.er = pickErr(s.N)
				rs.stream.mu.Unlock()
				close(rs.stream.ch)
			}
			return
		}
		switch s.Label {
		case "add":
			o.merged.AddRoute(src, o.routes[s.N])
		case "remove":
			o.merged.RemoveRoute(src, o.routes[s.N])
		case "drop":
			o.merged.DropAllBySrc(src)
		}
	}
	// sequential reference model (exact in sequential runs; in concurrent runs the per-source
	// order is preserved and operations of different sources commute for the "iff" predicate)
	switch s.Label {
	case "add":
		if o.model[s.N] == nil {
			o.model[s.N] = map[int]bool{}
		}
		o.model[s.N][s.Peer] = true
	case "remove":
		delete(o.model[s.N], s.Peer)
	case "drop":
		for _, m := range o.model {
			delete(m, s.Peer)
		}
	}
	if o.ris != nil {
		run() // the step only hands the update to the transport; the source's own loop is the caller
		if s.Label == "drop" {
			w.Env.fault("ris_stream_ends")
			if !par {
				w.Env.Sim.Settle()
			}
			o.startStream(w, s.Peer) // the client reconnects
		}
		if !par {
			w.Env.Sim.Settle()
		}
	} else {
		w.Go(name, run)
	}
	if !par {
		if len(w.PendingTasks()) == 0 {
			o.check(w, fmt.Sprintf("after op %d %s", i, name))
		}
	}
}

func pickErr(n int) error {
	if n%2 == 0 {
		return io.EOF
	}
	return errors.New("rpc error: code = Unavailable desc = transport is closing")
}

func (o *c29Oracle) present(k int) bool {
	r := o.rts[k]
	return o.rib.ContainsPfxPath(r.Prefix(), r.Paths()[0])
}

func (o *c29Oracle) check(w *World, when string) {
	for k := range o.routes {
		want := len(o.model[k]) > 0
		got := o.present(k)
		if want != got {
			var srcs []string
			for s := range o.model[k] {
				srcs = append(srcs, o.srcs[s].name)
			}
			sort.Strings(srcs)
			as := "route_present_without_source"
			if want {
				as = "route_missing_although_advertised"
			}
			w.Env.Violate("C29", as, "%s: route r%d present=%v but sources currently advertising it: [%s]", when, k, got, strings.Join(srcs, " "))
		}
	}
}

func (o *c29Oracle) AfterStep(w *World, i int, s *Step) {
	if s.Kind == "par" && len(w.PendingTasks()) == 0 {
		o.check(w, fmt.Sprintf("after concurrent step %d", i))
	}
}

func (o *c29Oracle) Final(w *World) {
	w.Data["nontrivial"] = len(w.Plan.Steps) > 3
	if o.dups > 0 {
		w.Env.probeN("repeated_advertisement_by_same_source", o.dups)
	}
}

// ---------------------------------------------------------------------------------------
// C25 (tables): concurrent table operations, client registration, policy replacement and
// disposal under the scheduling gate never leave a goroutine blocked.

type nullClient struct{ name string }

type bnetPrefix = bnet.Prefix

func (n *nullClient) AddPath(*bnetPrefix, *route.Path) error            { return nil }
func (n *nullClient) AddPathInitialDump(*bnetPrefix, *route.Path) error { return nil }
func (n *nullClient) EndOfRIB()                                         {}
func (n *nullClient) RemovePath(*bnetPrefix, *route.Path) bool          { return true }
func (n *nullClient) ReplacePath(*bnetPrefix, *route.Path, *route.Path) {}
func (n *nullClient) RefreshRoute(*bnetPrefix, []*route.Path)           {}
func (n *nullClient) Dispose()                                          {}

func genC25T(seed uint64) *Plan {
	r := propRand("C25T", seed)
	pl := &Plan{Prop: "C25", Engine: "ribsim", Seed: seed, DUT: DUTCfg{RouterID: 1, LocalAS: 65000}}
	pl.Sim = SimCfg{ShuffleMaps: r.Chance(0.7), GateProb: pick(r, []float64{0.3, 0.7, 1}), Sticky: pick(r, []float64{0, 0.5, 0.8}), RandomHandoff: r.Chance(0.5)}
	pl.Sim.Priority = r.Chance(0.4)
	nc := 4
	for i := 0; i < nc; i++ {
		pl.Cands = append(pl.Cands, genCand(r, false))
	}
	kinds := []string{"add", "remove", "register", "unregister", "refresh", "export", "dump", "dispose", "replace"}
	wts := map[string]int{"add": 10, "remove": 5, "register": 3, "unregister": 3, "refresh": 2, "export": 4, "dump": 2, "dispose": 1, "replace": 4}
	if r.Chance(0.6) {
		wts["dispose"] = 0
	}
	// the client manager as a public type of its own: registration, listing and Dispose
	// (end of life) from several callers
	if r.Chance(0.5) {
		kinds = append(kinds, "cm_register", "cm_unregister", "cm_clients", "cm_dispose")
		wts["cm_register"], wts["cm_unregister"], wts["cm_clients"], wts["cm_dispose"] = 5, 3, 2, 2
	}
	rounds := 3 + r.Intn(8)
	for k := 0; k < rounds; k++ {
		var sub []Step
		for j := 0; j < 2+r.Intn(3); j++ {
			kind := weighted(r, wts, kinds)
			st := Step{Kind: "tb_op", Label: kind, N: r.Intn(nc), Peer: r.Intn(3), Pfx: []Prefix{pick(r, []Prefix{P4(192, 0, 2, 0, 24), P4(198, 51, 100, 0, 24)})}}
			if kind == "export" {
				st.Code = uint8(r.Intn(3))
			}
			sub = append(sub, st)
		}
		pl.Steps = append(pl.Steps, Step{Kind: "par", Par: sub})
	}
	return pl
}

type c25TOracle struct {
	rib      *locRIB.LocRIB
	outs     []*adjRIBOut.AdjRIBOut
	clients  []*nullClient
	disposed bool
	cm       *routingtable.ClientManager
}

// cmMaster is the table behind a bare ClientManager: the initial dump to a new client
type cmMaster struct{}

func (cmMaster) UpdateNewClient(c routingtable.RouteTableClient) error { c.EndOfRIB(); return nil }

func (o *c25TOracle) Init(w *World) {
	o.cm = routingtable.NewClientManager(cmMaster{})
	simrt.LabelPointer(o.cm)
	o.rib = locRIB.New("c25")
	simrt.LabelPointer(o.rib)
	for i := 0; i < 3; i++ {
		sa := routingtable.SessionAttrs{RouterID: 1, PeerIP: basicPeer(i, 65001).bnetAddr(), LocalIP: dutLocalIP.Dedup(), Type: route.BGPPathType,
			IBGP: i == 2, LocalASN: 65000, PeerASN: 65001 + uint32(i), RouteReflectorClient: i == 2, AddPathTX: i == 1}
		if i == 2 {
			sa.PeerASN = 65000
		}
		out := adjRIBOut.New(o.rib, sa, filter.NewAcceptAllFilterChain())
		simrt.LabelPointer(out)
		o.outs = append(o.outs, out)
		c := &nullClient{name: fmt.Sprintf("nc%d", i)}
		simrt.LabelPointer(c)
		o.clients = append(o.clients, c)
	}
	opts := []routingtable.ClientOptions{{BestOnly: true}, {MaxPaths: 3}, {BestOnly: true}}
	for i, out := range o.outs {
		o.rib.RegisterWithOptions(out, opts[i])
	}
	w.Data["exec:tb_op"] = func(w *World, i int, s *Step) { o.apply(w, i, s) }
}

func (o *c25TOracle) apply(w *World, i int, s *Step) {
	cands := w.Plan.Cands
	pfx := ToBnetPrefix(s.Pfx[0])
	switch s.Label {
	case "add":
		w.Go("LocRIB.AddPath", func() { o.rib.AddPath(pfx, cands[s.N].build(s.N)) })
	case "remove":
		w.Go("LocRIB.RemovePath", func() { o.rib.RemovePath(pfx, cands[s.N].build(s.N)) })
	case "replace":
		nw := (s.N + 1) % len(cands)
		w.Go("LocRIB.ReplacePath", func() { o.rib.ReplacePath(pfx, cands[s.N].build(s.N), cands[nw].build(nw)) })
	case "register":
		c := o.clients[s.Peer]
		w.Go("LocRIB.RegisterWithOptions("+c.name+")", func() { o.rib.RegisterWithOptions(c, routingtable.ClientOptions{EcmpOnly: true}) })
	case "unregister":
		c := o.clients[s.Peer]
		w.Go("LocRIB.Unregister("+c.name+")", func() { o.rib.Unregister(c) })
	case "refresh":
		out := o.outs[s.Peer]
		w.Go("LocRIB.RefreshClient", func() { o.rib.RefreshClient(out) })
	case "export":
		out := o.outs[s.Peer]
		chain := []filter.Chain{filter.NewAcceptAllFilterChain(), filter.NewDrainFilterChain(), (&PolicySpec{Terms: []TermSpec{{Actions: []ActionSpec{{Kind: "med", V: 5}}}, {Actions: []ActionSpec{{Kind: "accept"}}}}}).Chain()}[s.Code%3]
		w.Go(fmt.Sprintf("AdjRIBOut[%d].ReplaceFilterChain", s.Peer), func() { out.ReplaceFilterChain(chain) })
	case "dump":
		out := o.outs[s.Peer]
		w.Go("Dump", func() { o.rib.Dump(); out.Dump(); o.rib.Count() })
	case "cm_register":
		c := o.clients[s.Peer]
		w.Go("ClientManager.RegisterWithOptions("+c.name+")", func() { o.cm.RegisterWithOptions(c, routingtable.ClientOptions{BestOnly: true}) })
	case "cm_unregister":
		c := o.clients[s.Peer]
		w.Go("ClientManager.Unregister("+c.name+")", func() { o.cm.Unregister(c) })
	case "cm_clients":
		w.Go("ClientManager.Clients", func() { o.cm.Clients(); o.cm.ClientCount() })
	case "cm_dispose":
		w.Go("ClientManager.Dispose", func() { o.cm.Dispose() })
	case "dispose":
		o.disposed = true
		w.Go("LocRIB.Dispose", func() { o.rib.Dispose() })
	}
}

func (o *c25TOracle) AfterStep(w *World, i int, s *Step) {}
func (o *c25TOracle) Final(w *World) {
	w.Data["nontrivial"] = w.Env.Sim.Stats().SchedAlternates > 0
	// the tables must still be usable: a fresh operation completes
	w.Go("final LocRIB.AddPath", func() { o.rib.AddPath(ToBnetPrefix(P4(203, 0, 113, 0, 24)), w.Plan.Cands[0].build(0)) })
	w.Go("final RegisterWithOptions", func() { o.rib.RegisterWithOptions(&nullClient{name: "late"}, routingtable.ClientOptions{BestOnly: true}) })
	w.Go("final ClientCount", func() { o.rib.ClientCount() })
	w.Go("final ClientManager.RegisterWithOptions", func() { o.cm.RegisterWithOptions(&nullClient{name: "latecm"}, routingtable.ClientOptions{BestOnly: true}) })
	w.Go("final ClientManager.Clients", func() { o.cm.Clients() })
	if w.checkWedged() {
		w.Env.probe("wedged_at_final_usability_check")
	}
}

func init() {
	bgpProps["C29"] = propDef{Gen: genC29, Oracles: func(p *Plan) []Oracle { return []Oracle{&c29Oracle{}} }}
	// C25 has two plan families: live sessions (bgpsim) and bare tables (ribsim); the seed picks
	c25b := bgpProps["C25"]
	bgpProps["C25"] = propDef{
		Gen: func(seed uint64) *Plan {
			if seed%3 == 0 {
				return genC25T(seed)
			}
			if (seed>>1)%5 == 0 {
				return genC25Collision(seed)
			}
			return c25b.Gen(seed)
		},
		Oracles: func(p *Plan) []Oracle {
			if p.Engine == "ribsim" {
				return []Oracle{&c25TOracle{}}
			}
			return nil
		},
	}
}

// genC25Collision: session control on a neighbour that has been through connection collisions
// (several FSMs, some of them ceased): the C24 scenarios followed by stop / disposal and API
// readers released together.
func genC25Collision(seed uint64) *Plan {
	pl := genC24(seed)
	pl.Prop = "C25"
	r := propRand("C25C", seed)
	pl.Sim.GateProb = pick(r, []float64{0, 0.5, 1})
	pl.Sim.Sticky = pick(r, []float64{0, 0.5})
	// drop the final checkpoint label of C24 and add the session-control round
	rounds := 1 + r.Intn(2)
	for k := 0; k < rounds; k++ {
		var sub []Step
		for j := 0; j < 1+r.Intn(3); j++ {
			switch r.Intn(5) {
			case 0, 1:
				sub = append(sub, Step{Kind: "dispose", Peer: 0})
			case 2:
				sub = append(sub, Step{Kind: "metrics"})
			case 3:
				sub = append(sub, Step{Kind: "dump_api", Peer: 0})
			default:
				sub = append(sub, Step{Kind: "export", Peer: 0, Policy: AcceptAll()})
			}
		}
		pl.Steps = append(pl.Steps, Step{GapUS: int64(1000 + r.Intn(2_000_000)), Kind: "par", Par: sub})
	}
	pl.Steps = append(pl.Steps, Step{GapUS: 2_000_000, Kind: "checkpoint"})
	pl.TailUS = 5_000_000
	return pl
}

package bgp

import (
	"fmt"
	"sort"

	"github.com/bio-routing/bio-rd/protocols/bgp/server"
	"github.com/bio-routing/bio-rd/route"
)

// Reference functions of the RIB pipeline, written from the RFCs and the property
// statements (not from bio-rd's code). Each maps the *actual* content of one stage to
// the expected content of the next (stage-wise oracles).

// PeerObs is what is observable about one neighbour at a quiescent point.
type PeerObs struct {
	FSMs   []server.VerifFSM
	Est    *server.VerifFSM
	NEst   int
	In     [2]TableDump // [0] IPv4, [1] IPv6; nil when no established session
	Out    [2]TableDump
	HasIn  [2]bool
	HasOut [2]bool
}

// Obs is a snapshot of the DUT at a quiescent point.
type Obs struct {
	Loc   [2]TableDump
	Peers []PeerObs
}

func b2i(b bool) int {
	if b {
		return 1
	}
	return 0
}

// Observe takes a snapshot. Must be called at quiescence.
func (w *World) Observe() *Obs {
	o := &Obs{}
	o.Loc[0] = w.DUT.LocRIBDump(false)
	o.Loc[1] = w.DUT.LocRIBDump(true)
	for _, p := range w.Peers {
		po := PeerObs{FSMs: w.DUT.FSMs(p)}
		for i := range po.FSMs {
			if po.FSMs[i].State == "established" {
				if po.Est == nil || (p.conn != nil && po.FSMs[i].Con == p.conn) {
					po.Est = &po.FSMs[i]
				}
				po.NEst++
			}
		}
		if po.Est != nil && po.Est.RibsInitialized {
			for _, v6 := range []bool{false, true} {
				f := famOf(po.Est, v6)
				if f == nil || !f.Initialized {
					continue
				}
				if f.AdjRIBIn != nil {
					po.In[b2i(v6)] = DumpRoutes(server.VerifDumpRIBIn(*f))
					po.HasIn[b2i(v6)] = true
				}
				if f.AdjRIBOut != nil {
					po.Out[b2i(v6)] = DumpRoutes(server.VerifDumpRIBOut(*f))
					po.HasOut[b2i(v6)] = true
				}
			}
		}
		o.Peers = append(o.Peers, po)
	}
	return o
}

func (c PeerCfg) addrString() string {
	return fmt.Sprintf("%d.%d.%d.%d", c.Addr[0], c.Addr[1], c.Addr[2], c.Addr[3])
}

func hasComm(cs []uint32, c uint32) bool {
	for _, x := range cs {
		if x == c {
			return true
		}
	}
	return false
}

// rolesActive: RFC 9234 procedures apply when the local role is configured and the peer advertised one.
func rolesActive(pc PeerCfg) bool { return pc.DUTRole >= 1 && pc.DUTRole <= 5 && pc.PeerRole != nil }

const (
	roleProvider = 0
	roleRS       = 1
	roleRSClient = 2
	roleCustomer = 3
	rolePeer     = 4
)

// ExportVerdict is the reference export decision for one Loc-RIB path towards one session.
type ExportVerdict struct {
	Send       bool
	Path       CanonPath
	Why        string
	RRWildcard bool // ORIGINATOR_ID / CLUSTER_LIST not determined by the property (non-reflected route to an RR client)
}

// RefExport applies export eligibility rules, session rewrites and the export policy.
func RefExport(dut DUTCfg, pc PeerCfg, pfx Prefix, in CanonPath) ExportVerdict {
	c := in
	c.Hidden = 0
	if pc.LocalAS != 0 {
		dut.LocalAS = pc.LocalAS // the session's own local AS is what it prepends and what decides iBGP / eBGP
	}
	ibgpSession := pc.AS == dut.LocalAS
	if in.Type == route.StaticPathType {
		// redistribution of a static route into BGP: fresh BGP attributes, next hop of the static route
		c = CanonPath{Type: route.BGPPathType, NextHop: in.NextHop, Source: "0.0.0.0", Redist: route.StaticPathType}
	} else if in.Type != route.BGPPathType {
		return ExportVerdict{Why: "unsupported path type"}
	}
	redistributed := in.Type == route.StaticPathType
	if !redistributed && in.Source == pc.addrString() {
		return ExportVerdict{Why: "split horizon: learned from this peer"}
	}
	if hasComm(c.Communities, CommNoAdvertise) {
		return ExportVerdict{Why: "NO_ADVERTISE"}
	}
	if hasComm(c.Communities, CommNoExport) && !ibgpSession {
		return ExportVerdict{Why: "NO_EXPORT to eBGP"}
	}
	v := ExportVerdict{Send: true}
	if ibgpSession {
		if !redistributed {
			if !in.EBGP && !pc.RRClient {
				return ExportVerdict{Why: "iBGP learned route to non-client iBGP peer"}
			}
			if pc.RRClient {
				if !in.EBGP {
					if c.OriginatorID == 0 {
						c.OriginatorID = ipToU32(in.Source)
					}
					cid := dut.ClusterID
					if cid == 0 {
						cid = dut.RouterID
					}
					c.ClusterList = append([]uint32{cid}, c.ClusterList...)
				} else {
					v.RRWildcard = true
				}
			}
		}
	} else {
		if !pc.RSClient {
			c.ASPath = prependAS(c.ASPath, dut.LocalAS, 1)
			c.NextHop = "10.0.0.254"
		}
		if rolesActive(pc) {
			pr := *pc.PeerRole
			if c.OTC != 0 && (pr == roleProvider || pr == rolePeer || pr == roleRS) {
				return ExportVerdict{Why: "OTC set: not to provider/peer/RS"}
			}
			if c.OTC == 0 && (pr == roleCustomer || pr == rolePeer || pr == roleRSClient) {
				c.OTC = dut.LocalAS
			}
		}
	}
	out, reject := pc.Export.Eval(pfx, c)
	if reject {
		return ExportVerdict{Why: "export policy"}
	}
	v.Path = out
	return v
}

func ipToU32(s string) uint32 {
	var a, b, c, d uint32
	fmt.Sscanf(s, "%d.%d.%d.%d", &a, &b, &c, &d)
	return a<<24 | b<<16 | c<<8 | d
}

// selected returns the first n Loc-RIB paths the session's add-path setting selects.
func selected(pc PeerCfg, paths []CanonPath) []CanonPath {
	n := 1
	if pc.AddPathTX > 0 && pc.PeerAddPath&1 != 0 {
		n = int(pc.AddPathTX)
	}
	if n > len(paths) {
		n = len(paths)
	}
	return paths[:n]
}

// normOut normalises an Adj-RIB-Out path for comparison with the reference.
func normOut(c CanonPath, rrWild bool) CanonPath {
	c.PathID = 0
	c.Hidden = 0
	c.Redist = 0
	c.Source = ""
	c.EBGP = false
	if rrWild {
		c.OriginatorID = 0
		c.ClusterList = nil
	}
	return c
}

// RefAdjRIBOut computes the expected Adj-RIB-Out of a session from the actual Loc-RIB.
// It returns per prefix the multiset of normalised path keys.
func RefAdjRIBOut(dut DUTCfg, pc PeerCfg, loc TableDump) map[Prefix][]string {
	out := map[Prefix][]string{}
	for pfx, paths := range loc {
		for _, p := range selected(pc, paths) {
			v := RefExport(dut, pc, pfx, p)
			if !v.Send {
				continue
			}
			out[pfx] = append(out[pfx], normOut(v.Path, v.RRWildcard || rrWildFor(dut, pc, p)).Key(false))
		}
		sort.Strings(out[pfx])
	}
	return out
}

func rrWildFor(dut DUTCfg, pc PeerCfg, p CanonPath) bool {
	return pc.AS == dut.LocalAS && pc.RRClient && (p.EBGP || p.Type == route.StaticPathType)
}

// ImportVerdict is the reference import decision for one stored Adj-RIB-In path.
func RefImport(dut DUTCfg, pc PeerCfg, pfx Prefix, in CanonPath) (CanonPath, bool) {
	c := in
	c.Hidden = 0
	if pc.AS != dut.LocalAS && c.LocalPref == 0 {
		c.LocalPref = 100
	}
	out, reject := pc.Import.Eval(pfx, c)
	return out, !reject
}

// normLoc normalises a Loc-RIB / Adj-RIB-In path for import comparison.
func normLoc(c CanonPath) CanonPath {
	c.Hidden = 0
	c.Redist = 0
	return c
}

// wireNorm normalises an Adj-RIB-Out path to what its UPDATE carries on this session.
func wireNorm(dut DUTCfg, pc PeerCfg, c CanonPath) CanonPath {
	c.Hidden, c.Redist = 0, 0
	c.Source = ""
	c.EBGP = false
	c.Type = route.BGPPathType
	if pc.AS != dut.LocalAS {
		c.LocalPref = 0
	}
	if !(pc.AS == dut.LocalAS && pc.RRClient) {
		c.OriginatorID = 0
		c.ClusterList = nil
	}
	return c
}

module verif.local/harness

go 1.26

require (
	github.com/anishathalye/porcupine v1.3.0
	github.com/benbjohnson/clock v1.3.0
	github.com/bio-routing/bio-rd v0.0.0
	verif.local/simrt v0.0.0
)

require github.com/cenkalti/backoff/v4 v4.2.0 // indirect

require (
	github.com/bio-routing/tflow2 v0.0.0-20181230153523-2e308a4a3c3a // indirect
	github.com/golang/protobuf v1.5.3 // indirect
	github.com/sirupsen/logrus v1.6.0
	github.com/vishvananda/netlink v1.0.0 // indirect
	github.com/vishvananda/netns v0.0.0-20180720170159-13995c7128cc // indirect
	go.uber.org/atomic v1.7.0 // indirect
	go.uber.org/multierr v1.6.0 // indirect
	go.uber.org/zap v1.24.0 // indirect
	golang.org/x/net v0.38.0 // indirect
	golang.org/x/sys v0.31.0 // indirect
	golang.org/x/text v0.23.0 // indirect
	google.golang.org/genproto v0.0.0-20230410155749-daa745c078e1 // indirect
	google.golang.org/grpc v1.56.3
	google.golang.org/protobuf v1.33.0 // indirect
)

replace github.com/bio-routing/bio-rd => /repo

replace verif.local/simrt => ../simrt

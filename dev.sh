#!/bin/sh
# developer helper: regenerate overlay and build the bgp engine test binary into .build/dev
set -e
export GOFLAGS=-mod=mod GOPROXY=off GOSUMDB=off GOTOOLCHAIN=local PATH=/opt/veriftools/go1.26.8/bin:$PATH
cd /verif
./bin/simgen -repo /repo -out /verif/.build/dev
cd harness
cp /repo/go.sum go.sum 2>/dev/null || true
for e in "$@"; do
  go test -c -tags verif -overlay=/verif/.build/dev/overlay.json -o /verif/.build/dev/$e.test ./$e
done

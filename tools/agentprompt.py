#!/usr/bin/env python3
"""Print the prompt given to a fresh sub-agent that is to produce property-breaking changes
for one property (used in the mutation waves; the agent sees nothing from /verif)."""
import json, sys

COMMON = """You are helping to test a verification harness for the Go project bio-routing/bio-rd (a BGP / BMP / IS-IS routing daemon) checked out at /repo. Your job: produce realistic source changes ("seeded defects") that BREAK the semantic property below while the code still COMPILES and the project's EXISTING unit tests still PASS. I will later check whether my harness notices them. You do not know and must not look at my harness: never read or write anything under /verif, and never modify, commit to, stash or check out anything in /repo itself.

Work only in your own scratch worktree:
  export GOFLAGS=-mod=mod   # the machine is offline; do NOT set GOSUMDB/GOPROXY/GOTOOLCHAIN, plain `go` works in the worktree
  git -C /repo worktree add --detach /tmp/mut-{ID} HEAD
  cd /tmp/mut-{ID}
When you are completely done: `git -C /repo worktree remove --force /tmp/mut-{ID}` (also remove any build output you created elsewhere).

Deliver TWO different changes (call them a and b; different mechanisms or different code locations, each a small edit of 1-15 lines such as a maintainer could plausibly make by mistake in a refactoring: a dropped or inverted condition, a wrong variable, a missing unlock/lock, a missing call, an off-by-one, a wrong comparison, a skipped branch, a reordering). Requirements for each:
  1. It breaks the property as stated (not just some other behaviour) for some inputs / schedules / histories within the property's quantifier, and it needs something specific to manifest (it must not break every run trivially, e.g. not "panic at startup").
  2. `go build ./...` succeeds and the existing tests pass: run at least `go test -vet=off -count=1 ./...` in the packages you touched and their dependants (the whole suite `go test -vet=off -count=1 ./...` at the worktree root takes about a minute; run it once per change at the end). If a test fails, pick another change; never edit or delete tests.
  3. Do not touch *_test.go files, go.mod, or anything outside the worktree.
For each change write into /tmp/mut/{ID}/ (create it):
  <x>.patch      - output of `git diff` in the worktree for that change alone (must apply to /repo HEAD with `git apply`)
  <x>.demo_test.go or <x>.demo.md - a demonstration: preferably a small Go test (placed temporarily in the worktree's package to run it, then copied to /tmp/mut/{ID}/, NOT part of the patch) that passes on unmodified HEAD and fails with the change applied, showing the property violated; if a test is impractical, a precise written scenario (inputs/sequence, expected vs. actual behaviour with code references)
  <x>.meta.json  - {{"property": "{ID}", "change": "<x>", "files": [...], "summary": "<one sentence: what was changed>", "breaks": "<how the property is violated>", "trigger": "<what specific input / configuration / timing is needed to see it>", "tests_run": "<command(s)> -> pass"}}
NEVER use `git stash` (the stash is shared with /repo and with other people working in parallel); to get back to HEAD use `git checkout -- .` or `git apply -R`. Reset the worktree (`git checkout -- .`) between change a and change b so that each patch stands alone. Finish with a short report listing the two changes, their triggers, and the test results. Be efficient: read only the code you need (start from the anchors).

THE PROPERTY ({ID}):
"""

def main():
    pid = sys.argv[1]
    for line in open('/verif/properties.jsonl'):
        d = json.loads(line)
        if d['id'] == pid:
            sub = {k: d[k] for k in ('id', 'title', 'statement', 'quantifier')}
            sub['anchors'] = {'files': d['anchors']['files'], 'mechanism': d['anchors']['mechanism']}
            print(COMMON.replace('{ID}', pid).replace('{{', '{').replace('}}', '}') + json.dumps(sub, indent=1))
            return
    sys.exit('unknown property ' + pid)

main()

#!/bin/bash
# Validate seeded (property-breaking) changes against the registered checks.
#   tools/seedcheck.sh <prop> <change> [check-prop ...]
# Takes /tmp/mut/<prop>/<change>.patch (as produced by a sub-agent), stores it under
# /verif/seeded/<prop>-<change>/, applies it to a scratch copy of /repo's HEAD (git worktree under
# /tmp, removed afterwards), runs the quick tier of the named checks (default: <prop>) against
# that copy (VERIF_REPO) and appends one JSON line per check to /verif/seeded/results.jsonl.
# The checks run from a snapshot of /verif's committed HEAD (git worktree, $SEED_SNAP, default
# /tmp/verif-snap; remove the directory to refresh it), so that work in /verif does not disturb them.
# The official procedure (git -C /repo apply ... ; check ; git -C /repo checkout -- .) is
# equivalent; the scratch copies only allow this to run while /repo and /verif are being worked on.
set -u
prop=$1; chg=$2; shift 2
checks=${*:-$prop}
src=/tmp/mut/$prop
dst=/verif/seeded/$prop-$chg
snap=${SEED_SNAP:-/tmp/verif-snap}
if [ ! -x "$snap/bin/vcheck" ]; then
  git -C /verif worktree prune
  rm -rf "$snap"
  git -C /verif worktree add --detach "$snap" HEAD >/dev/null 2>&1 || { echo "cannot create snapshot of /verif"; exit 2; }
  (cd "$snap" && ./setup.sh >/dev/null 2>&1) || { echo "setup failed in snapshot"; exit 2; }
fi
mkdir -p "$dst"
cp "$src/$chg.patch" "$dst/patch.diff"
for f in "$src/$chg".demo*; do [ -e "$f" ] && cp "$f" "$dst/$(basename "$f" | sed "s/^$chg\.//")"; done
cp "$src/$chg.meta.json" "$dst/meta.json" 2>/dev/null
wt=/tmp/seedwt-$prop-$chg-$$
git -C /repo worktree add --detach "$wt" HEAD >/dev/null 2>&1 || { echo "cannot create worktree"; exit 2; }
trap 'git -C /repo worktree remove --force "$wt" >/dev/null 2>&1; rm -rf "/tmp/seedrp-$prop-$chg-$$"' EXIT
if ! git -C "$wt" apply "$dst/patch.diff"; then
  echo "{\"seed\":\"$prop-$chg\",\"error\":\"patch does not apply to HEAD $(git -C /repo rev-parse --short HEAD)\"}" >> /verif/seeded/results.jsonl
  exit 2
fi
head=$(git -C /repo rev-parse --short HEAD)
vhead=$(git -C "$snap" rev-parse --short HEAD)
for c in $checks; do
  rp=/tmp/seedrp-$prop-$chg-$$
  rm -rf "$rp"; mkdir -p "$rp"
  out=$(cd "$snap" && VERIF_REPO="$wt" VERIF_REPLAY_DIR="$rp" ./bin/vcheck "$c" --tier quick --no-evidence 2>&1)
  rc=$?
  asserts=$(echo "$out" | grep -o "assertion=[^ ]*" | sort -u | tr '\n' ' ')
  runs=$(echo "$out" | grep -o "[0-9]* runs" | head -1)
  wall=$(echo "$out" | grep -o "wall [0-9.]*s" | head -1)
  [ $rc -eq 2 ] && echo "$out" | tail -5
  # keep one minimised replay as the witness
  w=$(ls "$rp"/*.json 2>/dev/null | head -1)
  [ -n "$w" ] && cp "$w" "$dst/witness-$c.json"
  python3 - "$prop-$chg" "$c" "$rc" "$asserts" "$runs" "$wall" "$head" "$vhead" <<'EOF' >> /verif/seeded/results.jsonl
import json,sys
seed,check,rc,asserts,runs,wall,head,vhead=sys.argv[1:9]
print(json.dumps({"seed":seed,"check":check,"exit":int(rc),"caught":int(rc)==1,"assertions":[a.replace("assertion=","") for a in asserts.split()],"runs":runs,"wall":wall,"repo_head":head,"verif_head":vhead}))
EOF
  echo "$prop-$chg check=$c exit=$rc $asserts"
done

#!/usr/bin/env python3
"""Generates /verif/MANIFEST.json from the tables below (keeps the manifest consistent)."""
import json, os

BASELINE = "for m in $(cat /w/out/gomods.txt); do MF=$(cd /repo/$m && . /w/out/goenv.sh && gomodflag); (cd /repo/$m && go test $MF -json -vet=off -count=1 -timeout 25m ./...); done"

NA = {
 "C03": "pure function of two paths' attributes: no schedule, clock, fault or history for a simulator to vary (order independence over histories is C02)",
 "C14": "policy evaluation and chain equality are pure functions of (prefix, path, chain); nothing to simulate",
 "C15": "prefix/address arithmetic is pure",
 "C16": "packet.Decode consumes a complete in-memory buffer: pure; the stream-facing part (framing, truncation, EOF) is C21",
 "C17": "serialisers are pure functions of path and options; the simulator would only be an input generator",
 "C30": "IS-IS PDU decode/encode round trip is pure",
 "C34": "API conversion is pure",
 "C35": "shortest-path computation is pure",
}

TRUST = ("trusted base: simrt/simgen (instrumentation changes who picks timer, lock hand-off and map order, not what the code does), "
         "the harness' independent BGP codec, scripted peers and reference models; Go 1.26.8 testing/synctest for the fake clock and quiescence; "
         "seeded sampling (VERIF_SEED), not enumeration")

# id -> (engine, design section, technique, text)
CHECKS = {
 "C01": ("ribsim", "5/C01", "deterministic simulation runtime driving the table API: seeded operation histories against a prefix-map reference model",
         "seeded histories of AddPath / RemovePath / ReplacePath / RemovePfx on RoutingTable over IPv4 and IPv6 prefixes that share long stems (every length on a stem, siblings differing in one bit, default and host routes); after every operation Get, LPM, GetLonger (also for queries that are not stored), Dump and the route count are compared with a prefix map whose containment is computed on raw address bits"),
 "C02": ("ribsim", "5/C02", "deterministic simulation runtime: metamorphic arrival-order permutations of candidate sets on fresh Loc-RIBs",
         "candidate sets of 2-5 BGP/static paths from the property's bounded attribute domain are installed on fresh Loc-RIBs under all (up to 120) arrival orders with noise paths added and removed in between; best path and ECMP set (up to paths the decision process cannot distinguish) must not depend on the order; the preference relation on the set must be antisymmetric, transitive and tie only indistinguishable paths"),
 "C04": ("ribsim", "5/C04", "deterministic simulation runtime: recording clients vs the Loc-RIB's selection after every operation",
         "histories interleaving path add/remove on a Loc-RIB with client registration, unregistration and refresh for best-only / ECMP-only / max-paths 1..4 clients; after every operation each client's accumulated set (initial dump + adds - removes) must equal the first paths of the Loc-RIB's current selection its option admits; any callback after Unregister returned is a violation; in 40 % of the plans independent operations (different paths, different clients) are released together and interleaved at every lock boundary (registration during route changes)"),
 "C18": ("bgpsim", "5/C18", "deterministic simulation: controlled aggregation windows with 1..3000 prefixes and attribute sizes around the message budget",
         "a source announces up to 3000 prefixes with one attribute set (AS paths up to 900 ASNs, up to 80 communities) inside one aggregation window; towards IPv4 classic / MP IPv6 / add-path / 2-octet-AS sessions every UPDATE must be at most 4096 bytes and decodable, no prefix may be announced twice in the flush, and the peer's view must equal the reference export of the Loc-RIB (nothing lost, attributes kept)"),
 "C23": ("bgpsim", "5/C23", "deterministic simulation: generated event sequences checked for membership in an executable RFC 4271 FSM relation",
         "random sequences of connection events, valid/invalid OPEN, KEEPALIVE, valid/malformed UPDATE, NOTIFICATION, header errors, TCP failure and timer expiry (by moving simulated time) against a hand-scripted neighbour; after every event the observed abstract step must be allowed by the reference relation, routes attached iff Established, UPDATEs have no effect outside Established, every return to Idle closes the connection. Only the implementation-trace half of the property is decided; the exhaustive enumeration of the abstract model is model checking and is not done"),
 "C24": ("bgpsim", "5/C24", "deterministic simulation: outgoing connection through the Dial seam colliding with an incoming one, interleaving chosen by the plan",
         "the neighbour is an active peer (the DUT dials through the overlay's Dial seam) and also connects in; OPEN/KEEPALIVE deliveries on both connections are ordered by the plan (clean collision, racy delays, late second connection) for identifier orderings incl. equal identifiers with different AS; never two Established or two contributing FSMs, exactly one session afterwards, the loser closed with Cease, and in the clean collision the survivor is the connection initiated by the speaker with the higher identifier (RFC 4271 6.8 / RFC 6286)"),
 "C25": ("bgpsim + ribsim", "5/C25", "deterministic simulation with a seeded scheduler at every lock acquisition; waits-for cycle detection and bounded liveness in simulated time",
         "route updates from live sessions, policy replacements, DisposePeer, Metrics, RIB dumps, static routes (bgpsim) and bare table operations, client (un)registration, refresh, export policy replacement and Loc-RIB disposal (ribsim) are released together and interleaved by the seeded gate scheduler at every simulator-mutex acquisition; a waits-for cycle in the logical lock table or an operation / goroutine still blocked after 600 simulated seconds of quiescence is a violation; afterwards the tables must still serve a fresh operation; collision scenarios followed by disposal; timers batched with teardowns and priority (PCT) scheduling at the gate in part of the plans"),
 "C26": ("bgpsim + ribsim, race build", "5/C26", "deterministic simulation on a -race build of the engine: plan-defined concurrent steps judged by the Go race detector, goroutine choice by seeded yields on one P",
         "the engine is rebuilt with -race: bio-rd is instrumented and keeps its own mutexes, while the simulator runtime and harness are compiled without instrumentation and use locks the detector cannot see (so the simulator adds no happens-before edges between product goroutines beyond goroutine start, timer fire and byte arrival); GOMAXPROCS=1 without asynchronous preemption plus PRNG-chosen yields before lock acquisitions decide the schedule. UPDATE arrivals from 2-4 sessions, import/export policy replacements, Metrics(), GetRIBIn/GetRIBOut + dumps, DisposePeer, session teardown by NOTIFICATION/close, re-connects and static routes (bgpsim) or bare Loc-RIB/Adj-RIB-Out operations (ribsim) are released at one simulated instant; every race report (unordered pair of bio-rd functions) is a violation. Limitation: the interleaving inside a step is the Go scheduler's (deterministic in practice, measured by the double replay), and the detector only sees accesses that were executed"),
 "C27": ("bmpsim", "5/C27", "deterministic simulation with fault injection: hostile and damaged BMP byte streams over the simulated connection, fragmentation and connection loss at seeded points",
         "a scripted monitored router sends well-formed conversations with injected damage (length fields below the header / huge / beyond the data, truncated bodies, statistics counts and TLV lengths beyond the message, empty reason TLVs, peer-up OPENs that are rejected, bit flips, noise, damaged UPDATEs), delivered in seeded fragments, ended by close at any point; the receiver's real message loop must not crash, must not allocate more than 1 MiB + 256 x bytes received, and must return after the connection ends"),
 "C28": ("bmpsim", "5/C28", "deterministic simulation: well-formed BMP histories against a model of the up peers' routes per VRF, with session end by peer-down, termination and connection loss",
         "initiation, peer-up (4/2-octet AS, add-path), route monitoring (pre/post policy, ignore-pre / ignore-post / ignored-ASN configurations, multi-NLRI, withdrawals, fragmentation), statistics, peer-down, termination, connection loss and reconnects over 2-4 peers in up to 3 VRFs; after every message each per-VRF table must equal the model (announced and not withdrawn by up peers), recording observers registered on the tables must hold exactly the tables' content, and after a session end no route, neighbour or observer-held path may remain and the message loop must have returned"),
 "C29": ("ribsim", "5/C29", "deterministic simulation runtime: source histories against a route -> advertiser-set model, concurrent sources under the gate scheduler",
         "2-4 sources call MergedLocRIB's client interface (the gRPC stream is stubbed): advertisements including repeated ones, withdrawals and source drops, sequentially and concurrently (one caller per source, interleaved at lock boundaries); the underlying Loc-RIB must contain a route iff the model's advertiser set is non-empty; in half of the plans the sources are real RIS clients fed through a simulated ObserveRIB stream (a drop is the stream ending with an error)"),
 "C31": ("isissim", "5/C31", "deterministic simulation on the mock clock: scripted hello sequences against an adjacency reference model (three-way handshake, holding time, removal)",
         "the real IS-IS server on simulated interfaces (ethernet factory, device updater and package clock seams; mock clock moved only by the plan; product locks and map order under the simulator): one or two scripted neighbours per interface send hellos whose three-way TLV lists the DUT, another system, another circuit, state Down or is missing, with holding times 3/9/30 s, interleaved with clock advances of 0.2..125 s, link events and silence. After every step: Up only if the neighbour's most recent hello listed this system and circuit and the holding time has not passed (one checker period tolerated); Up whenever such a hello arrived on an existing adjacency; a neighbour that stays silent is gone 120 s after it went down whether or not it was ever Up; whenever the local LSP was regenerated it lists exactly the Up adjacencies"),
 "C32": ("isissim", "5/C32", "deterministic simulation on the mock clock: LSP / CSNP / PSNP sequences against an executable ISO 10589 update-process model (database, SRM/SSN flags, transmissions at the 5 s ticks)",
         "two scripted level 2 neighbours (adjacency kept Up by hellos) send LSPs (sequence 1..6, lifetimes 20..1200 s, also copies of the DUT's own LSP), CSNPs and PSNPs listing same / older / newer / unknown LSPs while the clock advances up to 1900 s. After every step the DUT's database (sequence numbers, lifetimes within 2 s) and its SRM/SSN flags per circuit (overlay accessor) must equal the reference model of ISO 10589 7.3.15-7.3.16, the LSPs and PSNP entries sent at every 5 s tick must be exactly the ones flagged, the own LSP must always be present with lifetime > 0 (refresh) and above any copy received from the network"),
 "C33": ("isissim", "5/C33", "deterministic simulation with fault injection: seeded link up/down sequences on active and passive interfaces, from every initial device state",
         "1-2 active and optionally a passive IS-IS interface start with a device that is up, down or not known yet; up to 6 link events (also redundant ones) interleaved with clock advances and hellos; afterwards every active interface is brought up and a neighbour performs the handshake. No panic in DeviceUpdate / Start / AddInterface / the API or any server goroutine (a crash is a violation), every event returns, hellos are sent again after the last link-up and the adjacency reaches Up"),
 "C36": ("cfgsim", "5/C36", "deterministic simulation with a metamorphic twin run: configurations reloaded into a live BGP server vs. a fresh start with the last one",
         "the real reload path of cmd/bio-rd (config.GetConfig on a YAML file, loadConfig, bgpConfigurator) runs inside the simulation against the real BGP server (the engine is a test binary of package main, its test file comes from the overlay). Configurations from a bounded grammar (1-2 groups, 2-5 neighbours, inherited and overridden hold time / import / export policies / TTL / add-path family block / multiprotocol / RR client / disabled, neighbours added, removed and moved between groups) are loaded one after the other while scripted neighbours hold established sessions, reconnect when the DUT restarts them and re-announce; a twin run starts fresh with the last configuration. Both must end with the same configured peers, the same PeerConfig per peer, the same OPEN on the current connection, the same Loc-RIB and the same Adj-RIB-Outs; neighbours may be down while a reload is applied, and groups may be active (the DUT dials)"),
 "C05": ("bgpsim", "5/C05", "deterministic simulation: stage-wise reference import model over seeded histories with session flaps",
         "seeded simulated histories (announce / implicit replace / withdraw, add-path RX on/off, iBGP/eBGP, accept/reject-some/rewriting import policies, clean session flaps and re-establishment, fragmentation, delay) against the real FSMs and tables; at every quiescent checkpoint the Loc-RIB paths of each source must equal reference-import(actual Adj-RIB-In dump); a quarter of the plans drive the real Adj-RIB-In directly with Loc-RIB clients that register and unregister anywhere in the history"),
 "C06": ("bgpsim", "5/C06", "deterministic simulation: generator-labelled ineligible announcements, invariant after every step",
         "announcements that are ineligible under every reading (local ASN in path, own ORIGINATOR_ID, local cluster id, OTC violations per role pair, empty AS_PATH on eBGP) mixed with eligible ones and import-policy flips; after every step and checkpoint no labelled tag may be in any Loc-RIB or in any peer's view"),
 "C07": ("bgpsim", "5/C07", "deterministic simulation with fault injection: every exit from Established on the simulated clock and network",
         "NOTIFICATION, hold-timer expiry (peer silence on the simulated clock), broken connection on keepalive, malformed/unexpected messages, DisposePeer, reconnects; after the FSM is seen outside Established nothing of the session may remain in the Loc-RIB, no later write may hit the closed connection, the ASN contribution must be gone; a re-established session starts from an empty Adj-RIB-In and the peer's view must converge to the reference export of the Loc-RIB"),
 "C08": ("bgpsim", "5/C08", "deterministic simulation: stage-wise reference export model (session kinds x add-path x export policy)",
         "Loc-RIB histories from several peers plus redistributed statics across eBGP / RS-client / iBGP / RR-client sessions, add-path send, RFC 9234 roles, export policies; at quiescent checkpoints every session's Adj-RIB-Out dump must equal reference-export(actual Loc-RIB dump); a fifth of the plans drive real Adj-RIB-Outs of three session kinds on a real Loc-RIB directly, registering while paths are added and removed under the gate scheduler"),
 "C09": ("bgpsim", "5/C09", "deterministic simulation: always-on wire monitor with provenance through unique tags",
         "every UPDATE the DUT writes is decoded by the independent codec, each NLRI attributed through its tag to the announcing peer, and the RFC export rule table (NO_ADVERTISE, NO_EXPORT, split horizon, iBGP reflection, OTC egress, AS prepend, next-hop-self, ORIGINATOR_ID/CLUSTER_LIST, LOCAL_PREF only iBGP) asserted per message under delays, flaps and policy replacement; some AS_SEQUENCEs are filled up to the 255-ASN segment limit, and an UPDATE whose AS_PATH does not decode is a violation"),
 "C10": ("bgpsim", "5/C10", "deterministic simulation: simulator-owned aggregation ticker, operations placed around the tick",
         "announce / withdraw / replace at plan-chosen simulated times around the update sender's aggregation tick (same-window withdraw-after-announce, several operations per window, aggregation interval as a per-run knob, same-instant tie shuffling); once changes stop the replay of the UPDATEs received by the peer must equal the Adj-RIB-Out; a quarter of the plans call AddPath / RemovePath of live sessions' Adj-RIB-Outs directly (replacement without removal, duplicates)"),
 "C11": ("bgpsim", "5/C11", "deterministic simulation: add-path send histories with shared identifiers",
         "add-path send sessions with long add/remove/re-add cycles over few prefixes whose paths share attributes; distinct paths of a prefix must have distinct ids, ids in the peer's view must be the ids the Adj-RIB-Out stores, and every selected exportable path must be stored (allocation keeps working); a fifth of the plans judge direct Adj-RIB-Out operations against an operation-level model (a removal withdraws the path it names)"),
 "C12": ("bgpsim", "5/C12", "deterministic simulation: metamorphic twin run (policies replaced at run time vs configured from the start)",
         "(old policy, new policy, route set) triples from the bounded policy language, including replacements that differ in exactly one action value or filter bound and repeated replacements on live sessions; a twin run with the final policies from the start must end with equal Loc-RIB and Adj-RIB-Out contents"),
 "C13": ("bgpsim", "5/C13", "deterministic simulation: deep table snapshots bracketing export-side operations",
         "export-policy replacements and the establishment of a receive-only session on a DUT with live sessions and routes; deep snapshots (all attributes, order, ids) of the Loc-RIB, every Adj-RIB-In and every other session's Adj-RIB-Out taken before and after each such operation must be identical"),
 "C19": ("bgpsim", "5/C19", "deterministic simulation with in-flight corruption classified by an independent decoder",
         "valid UPDATEs mutated in the ways the property lists (length fields that do not add up, attribute lengths, NLRI prefix length beyond 32, missing ORIGIN/AS_PATH/next hop), delivered whole or fragmented to established sessions; no (prefix, tag) may appear in any Adj-RIB-In or Loc-RIB that was not there before; a crash of the DUT is a violation"),
 "C21": ("bgpsim", "5/C21", "deterministic simulation with fault injection: hostile byte streams in OpenSent, OpenConfirm and Established",
         "header lengths below 19 and above 4096, bad marker, bad type, truncation then EOF, noise, messages illegal for the state, bit flips, arbitrary chunking; oracles: no crash, the session is torn down and the connection closed within bounded simulated time, a clean reconnect of the same peer reaches Established, a second session keeps its routes, and unambiguous error classes get the RFC 4271 section 6 NOTIFICATION"),
 "C22": ("bgpsim", "5/C22", "deterministic simulation: OPEN domain x configuration against a reference negotiation, timers on the simulated clock",
         "OPENs over AS / AS_TRANS+4-octet capability / identifier 0, own, other / hold 0..5 and large / add-path, role capabilities, answered after 0.3 ms..2.5 s and optionally fragmented; reference admission decides admit or the OPEN error subcode; rejected: NOTIFICATION and connection closed by the DUT; admitted: negotiated hold = min, keepalives every hold/3 of simulated time, expiry of a silenced peer at the negotiated time, and UPDATE encodings (4-octet AS, add-path) exactly as negotiated (the peer decodes with the expected options)"),
 "C20": ("bgpsim", "5/C20", "deterministic simulation: per-NLRI reference Adj-RIB-In",
         "valid UPDATEs with 1..N NLRI per family, distinct path identifiers, mixed announce/withdraw, classic and MP encodings, add-path on/off, fragmentation; a reference Adj-RIB-In updated NLRI by NLRI must equal the real Adj-RIB-In after every message"),
}

def main():
    checks = []
    for pid in sorted(CHECKS):
        engine, ref, tech, text = CHECKS[pid]
        checks.append({
            "property_id": pid,
            "quick_cmd": f"./bin/vcheck {pid} --tier quick",
            "thorough_cmd": f"./bin/vcheck {pid} --tier thorough",
            "evidence_file": f"/verif/evidence/{pid}.json",
            "replay_cmd_template": f"./bin/vcheck {pid} --replay {{path}}",
            "engine": engine,
            "level_claimed": {"category": "exploration", "text": text, "design_ref": "DESIGN.md section " + ref},
            "level_note": TRUST,
            "technique": tech,
        })
    m = {
        "version": 1,
        "setup_cmd": "./setup.sh",
        "hooks": {
            "guard": "verif",
            "enable": "bin/simgen rewrites the current /repo tree into /verif/.build/k-<hash>/ and the engines are built with `go1.26.8 test -c -tags verif -overlay=<that>/overlay.json`; accessor files come from /verif/overlay; nothing is committed to /repo",
            "baseline_off_cmd": BASELINE,
            "source_commits": [],
            "add_only": True,
        },
        "engines": [
            {"name": "bgpsim", "path": "harness/bgp", "serves_properties": sorted(p for p in CHECKS if "bgpsim" in CHECKS[p][0]), "kind_free_text": "real bio-rd BGP server, FSMs and RIB pipeline inside a testing/synctest bubble with simulator-owned timers, mutexes and map order; scripted peers over a simulated TCP"},
            {"name": "ribsim", "path": "harness/bgp (ribsim_*.go, same test binary)", "serves_properties": sorted(p for p in CHECKS if "ribsim" in CHECKS[p][0]), "kind_free_text": "the same simulation runtime driving the real table APIs (RoutingTable, LocRIB, AdjRIBOut, ClientManager, MergedLocRIB) from simulated caller tasks with a seeded scheduler at lock boundaries"},
        ],
        "checks": checks,
        "notes": "every check: exit 0 held (KNOWN-FINDING lines for findings/known_findings.json), exit 1 + VIOLATION line, exit 2 infrastructure. VERIF_SEED and VERIF_TIER are honoured.",
        "not_applicable": [{"property_id": k, "reason": v} for k, v in sorted(NA.items())] + PENDING,
    }
    json.dump(m, open(os.path.join(os.path.dirname(__file__), "..", "MANIFEST.json"), "w"), indent=1)

# properties planned but whose checks are not registered yet (kept here so the manifest says so explicitly)
ALL = ["C%02d" % i for i in range(1, 37)]
PENDING = [{"property_id": p, "reason": "not claimed yet: its deterministic-simulation check is still under construction (DESIGN.md section 5 describes the plan); no other technique is substituted"}
           for p in ALL if p not in CHECKS and p not in NA]

if __name__ == "__main__":
    main()

#!/usr/bin/env python3
"""Render seeded/results.jsonl (+ seeded/<id>/meta.json) as the markdown table of DESIGN.md 12.7.
For every seeded change the LAST result per check counts (earlier lines are kept as history:
a miss followed by a catch means the check was strengthened in between)."""
import json, os, sys

base = '/verif/seeded'
rows = {}
hist = {}
for line in open(os.path.join(base, 'results.jsonl')):
    line = line.strip()
    if not line:
        continue
    d = json.loads(line)
    if 'check' not in d:
        continue
    key = (d['seed'], d['check'])
    hist.setdefault(key, []).append(d)
    rows[key] = d

def meta(seed):
    p = os.path.join(base, seed, 'meta.json')
    try:
        m = json.load(open(p))
        return m.get('summary', '').replace('|', '/').replace('\n', ' ')
    except Exception:
        return ''

print('| seeded change | what was changed (sub-agent\'s summary) | check | result | assertion(s) that fired |')
print('|---|---|---|---|---|')
caught = missed = 0
for (seed, check) in sorted(rows):
    d = rows[(seed, check)]
    h = hist[(seed, check)]
    if d['exit'] == 1:
        res = 'caught'
        caught += 1
        if any(x['exit'] == 0 for x in h[:-1]):
            res = 'caught after the check was strengthened (missed first)'
    elif d['exit'] == 0:
        res = '**missed**'
        missed += 1
    else:
        res = 'infrastructure error (exit %d)' % d['exit']
    asr = ', '.join(a if len(a) < 70 else a[:67] + '...' for a in d.get('assertions', [])[:3])
    s = meta(seed)
    if len(s) > 230:
        s = s[:227] + '...'
    print('| %s | %s | %s | %s | %s |' % (seed, s, check, res, asr))
print()
print('%d caught, %d missed (quick tier, VERIF_SEED=1).' % (caught, missed))

#!/bin/bash
# Run the thorough tier of the named checks one after the other (used with `vp run`).
#   tools/thorough_some.sh <workers> <seed> <prop> [<prop> ...]
cd "$(dirname "$0")/.."
./setup.sh >/dev/null 2>&1 || { echo "setup failed"; exit 2; }
w=$1; seed=$2; shift 2
rc=0
for p in "$@"; do
  start=$(date +%s)
  out=$(VERIF_SEED=$seed ./bin/vcheck $p --tier thorough --workers $w 2>&1); r=$?
  echo "$out" | grep "^vcheck $p:\|^VIOLATION\|^KNOWN-FINDING\|WARNING" | cut -c1-400
  echo "== $p exit=$r $(( $(date +%s) - start ))s"
  [ $r -ne 0 ] && rc=1
done
exit $rc

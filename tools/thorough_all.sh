#!/bin/bash
# Run the thorough tier of every registered check one after the other (used with `vp run`).
#   tools/thorough_all.sh [workers] [seed]
cd "$(dirname "$0")/.."
./setup.sh >/dev/null 2>&1 || { echo "setup failed"; exit 2; }
w=${1:-10}; seed=${2:-1}
rc=0
for p in $(python3 -c "import json;print(' '.join(c['property_id'] for c in json.load(open('MANIFEST.json'))['checks']))"); do
  start=$(date +%s)
  out=$(VERIF_SEED=$seed ./bin/vcheck $p --tier thorough --workers $w 2>&1); r=$?
  echo "$out" | grep "^vcheck $p:\|^VIOLATION\|^KNOWN-FINDING\|WARNING" | cut -c1-400
  echo "== $p exit=$r $(( $(date +%s) - start ))s"
  [ $r -ne 0 ] && rc=1
done
exit $rc

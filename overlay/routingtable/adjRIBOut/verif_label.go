//go:build verif

package adjRIBOut

import "fmt"

// VerifLabel gives Adj-RIB-Outs registered as clients of one Loc-RIB a run-independent name
// (the neighbour they belong to), so that the simulator can order them without falling back to
// Go's random map order.
func (a *AdjRIBOut) VerifLabel() string {
	ip := "-"
	if a.sessionAttrs.PeerIP != nil {
		ip = a.sessionAttrs.PeerIP.String()
	}
	return fmt.Sprintf("%s/%d", ip, a.sessionAttrs.PeerASN)
}

//go:build verif

package net

// VerifLabel gives address pointers used as map keys a run-independent name, so that the
// simulator can order them without falling back to Go's random map order.
func (ip *IP) VerifLabel() string { return ip.String() }

// VerifLabel: see (*IP).VerifLabel.
func (p *Prefix) VerifLabel() string { return p.String() }

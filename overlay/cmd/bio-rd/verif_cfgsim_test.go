//go:build verif

package main

// cfg engine of the verification harness (see /verif/harness/bgp/cfgsim_c36.go): this file is
// added to package main through `go test -overlay` only; nothing of it exists in the repository.

import (
	"fmt"
	"os"
	"path/filepath"
	"testing"

	"github.com/bio-routing/bio-rd/cmd/bio-rd/config"
	hbgp "verif.local/harness/bgp"
)

func init() {
	hbgp.CfgApply = func(w *hbgp.World, yaml string) error {
		dir, err := os.MkdirTemp("", "cfgsim-")
		if err != nil {
			return err
		}
		defer os.RemoveAll(dir)
		path := filepath.Join(dir, "bio-rd.yml")
		if err := os.WriteFile(path, []byte(yaml), 0o644); err != nil {
			return err
		}
		cfg, err := config.GetConfig(path)
		if err != nil {
			return fmt.Errorf("GetConfig: %w", err)
		}
		// the daemon's globals: the server the reload path configures
		bgpSrv = w.DUT.Srv
		return loadConfig(cfg)
	}
}

// TestProp is the entry point vcheck runs.
func TestProp(t *testing.T) { hbgp.RunMain(t) }

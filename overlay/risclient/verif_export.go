//go:build verif

package risclient

import (
	risapi "github.com/bio-routing/bio-rd/cmd/ris/api"
)

// VerifServiceLoop runs the client's receive loop on the given stream (the gRPC transport is the
// only thing the simulator replaces): updates are handed to the merged RIB, and when the stream
// ends the source is dropped.
func VerifServiceLoop(r *RISClient, orc risapi.RoutingInformationService_ObserveRIBClient) error {
	return r.serviceLoop(orc)
}

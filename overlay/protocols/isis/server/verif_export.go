//go:build verif

package server

import (
	"sort"

	"github.com/bio-routing/bio-rd/protocols/isis/packet"
)

// VerifLSDBEntry is a snapshot of one level 2 LSDB entry including its flooding flags.
type VerifLSDBEntry struct {
	ID       packet.LSPID
	Seq      uint32
	Lifetime uint16
	SRM      []string // interface names
	SSN      []string
}

// VerifLSDB returns a snapshot of the level 2 link state database with the SRM / SSN flags.
func VerifLSDB(s *Server) []VerifLSDBEntry {
	s.lsdbL2.lspsMu.RLock()
	defer s.lsdbL2.lspsMu.RUnlock()

	var out []VerifLSDBEntry
	for id, e := range s.lsdbL2.lsps {
		e.mutex.RLock()
		v := VerifLSDBEntry{ID: id, Seq: e.lspdu.SequenceNumber, Lifetime: e.lspdu.RemainingLifetime}
		for ifa := range e.srmFlags {
			v.SRM = append(v.SRM, ifa.name)
		}
		for ifa := range e.ssnFlags {
			v.SSN = append(v.SSN, ifa.name)
		}
		e.mutex.RUnlock()
		sort.Strings(v.SRM)
		sort.Strings(v.SSN)
		out = append(out, v)
	}
	return out
}

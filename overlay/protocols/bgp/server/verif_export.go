//go:build verif

// Accessors for the deterministic-simulation harness. This file is added to package
// server by build overlay only (it does not exist in the bio-rd tree).
package server

import (
	"net"

	bnet "github.com/bio-routing/bio-rd/net"
	"github.com/bio-routing/bio-rd/net/tcp"
	"github.com/bio-routing/bio-rd/route"
	"github.com/bio-routing/bio-rd/routingtable"
	"github.com/bio-routing/bio-rd/routingtable/vrf"
)

// VerifDialHook, when set, replaces tcp.Dial for outgoing BGP connections.
var VerifDialHook func(laddr, raddr *net.TCPAddr) (net.Conn, error)

func verifDial(laddr, raddr *net.TCPAddr, ttl uint8, md5Secret string, noRoute bool, bindDev string) (net.Conn, error) {
	if h := VerifDialHook; h != nil {
		return h(laddr, raddr)
	}
	c, err := tcp.Dial(laddr, raddr, ttl, md5Secret, noRoute, bindDev)
	if err != nil {
		return nil, err
	}
	return c, nil
}

// VerifFamily is the observable state of one address family of one FSM.
type VerifFamily struct {
	AFI           uint16
	Initialized   bool
	AdjRIBIn      routingtable.AdjRIBIn
	AdjRIBOut     routingtable.AdjRIBOut
	UpdateSender  *UpdateSender
	AddPathRX     bool
	AddPathTX     bool
	MultiProtocol bool
	Queued        int
}

// VerifFSM is the observable state of one FSM.
type VerifFSM struct {
	State           string
	RibsInitialized bool
	Con             net.Conn
	Active          bool
	NeighborID      uint32
	HoldTimeNS      int64
	KeepaliveNS     int64
	Supports4Octet  bool
	Families        []VerifFamily
}

func verifFamily(f *fsmAddressFamily) VerifFamily {
	vf := VerifFamily{
		AFI:           f.afi,
		Initialized:   f.initialized,
		AdjRIBIn:      f.adjRIBIn,
		AdjRIBOut:     f.adjRIBOut,
		UpdateSender:  f.updateSender,
		AddPathRX:     f.addPathRX,
		AddPathTX:     !f.addPathTX.BestOnly,
		MultiProtocol: f.multiProtocol,
	}
	if f.updateSender != nil && f.initialized {
		f.updateSender.toSendMu.Lock()
		for _, pp := range f.updateSender.toSend {
			vf.Queued += len(pp.pfxs)
		}
		f.updateSender.toSendMu.Unlock()
	}
	return vf
}

// VerifFSMListLocked is the state name VerifPeerFSMs reports when the peer's FSM list is locked.
const VerifFSMListLocked = "<fsm list locked at quiescence>"

// VerifPeerFSMs lists the FSMs of a peer in creation order. Call at quiescence.
func VerifPeerFSMs(b BGPServer, v *vrf.VRF, ip *bnet.IP) []VerifFSM {
	srv, ok := b.(*bgpServer)
	if !ok {
		return nil
	}
	p := srv.peers.get(v, ip)
	if p == nil {
		return nil
	}
	// the caller runs at quiescence: if the list's lock is held now, its holder is blocked for good
	if !p.fsmsMu.TryLock() {
		return []VerifFSM{{State: VerifFSMListLocked}}
	}
	fsms := append([]*FSM(nil), p.fsms...)
	p.fsmsMu.Unlock()
	out := make([]VerifFSM, 0, len(fsms))
	for _, f := range fsms {
		f.stateMu.RLock()
		name := stateName(f.state)
		f.stateMu.RUnlock()
		vf := VerifFSM{
			State:           name,
			RibsInitialized: f.ribsInitialized,
			Con:             f.con,
			Active:          f.active,
			NeighborID:      f.neighborID,
			HoldTimeNS:      int64(f.holdTime),
			KeepaliveNS:     int64(f.keepaliveTime),
			Supports4Octet:  f.supports4OctetASN,
		}
		if f.ipv4Unicast != nil {
			vf.Families = append(vf.Families, verifFamily(f.ipv4Unicast))
		}
		if f.ipv6Unicast != nil {
			vf.Families = append(vf.Families, verifFamily(f.ipv6Unicast))
		}
		out = append(out, vf)
	}
	return out
}

// VerifPeerRole returns what the peer structure recorded about the remote role.
func VerifPeerRole(b BGPServer, v *vrf.VRF, ip *bnet.IP) (advertised bool, role uint8) {
	srv, ok := b.(*bgpServer)
	if !ok {
		return false, 0
	}
	p := srv.peers.get(v, ip)
	if p == nil {
		return false, 0
	}
	return p.peerRoleAdvByPeer, p.peerRoleRemote
}

// VerifDumpRIBIn / VerifDumpRIBOut dump the tables of the FSM with the given index.
func VerifDumpRIBIn(f VerifFamily) []*route.Route {
	if f.AdjRIBIn == nil {
		return nil
	}
	return f.AdjRIBIn.Dump()
}

func VerifDumpRIBOut(f VerifFamily) []*route.Route {
	if f.AdjRIBOut == nil {
		return nil
	}
	return f.AdjRIBOut.Dump()
}

// ---- BMP

// VerifNewBMPRouter creates a BMP router object the way the receiver does for a monitored router.
func VerifNewBMPRouter(addr net.IP, cfg RouterConfig) *Router {
	return newRouter(addr, 0, adjRIBInFactory{}, cfg)
}

// VerifBMPServe runs the router's message loop on the given connection until it ends.
func VerifBMPServe(r *Router, c net.Conn) error { return r.serve(c) }

// VerifBMPNeighbors lists (vrf id, peer address) of the neighbours the router currently knows.
func VerifBMPNeighbors(r *Router) [][2]string {
	var out [][2]string
	for _, n := range r.neighborManager.list() {
		out = append(out, [2]string{vrf.RouteDistinguisherHumanReadable(n.vrfID), addrToNetIP(n.peerAddress).String()})
	}
	return out
}

//go:build race

package simrt

import "runtime"

// RaceMode: the race-detector build (C26).
//
// In this build the simulator must not add happens-before edges between product goroutines:
// an ordinary mutex around the event heap, the timer table or the harness' trace would order
// everything a goroutine did before it created a timer before everything another goroutine
// does after it iterated a map, and the race detector would stay silent about real races.
// Therefore
//   - this package and the harness are compiled WITHOUT race instrumentation
//     (vcheck passes -gcflags=<pkg>=-race=false -l for them), so their own memory accesses are
//     invisible to the detector and cannot be inlined into instrumented callers;
//   - InternalLock is a plain-memory lock the detector cannot see. It is correct because the
//     race build runs with GOMAXPROCS=1 and without asynchronous preemption: goroutines
//     switch only at function prologues, blocking operations and Gosched, never between the
//     test and the set below;
//   - product mutexes stay real sync mutexes (see mutex.go), so exactly the product's own
//     synchronisation is what the detector judges.
const RaceMode = true

// InternalLock protects simulator and harness state (never product state).
type InternalLock struct{ held bool }

func (l *InternalLock) Lock() {
	for l.held {
		runtime.Gosched()
	}
	l.held = true
}

func (l *InternalLock) Unlock() { l.held = false }

func (l *InternalLock) TryLock() bool {
	if l.held {
		return false
	}
	l.held = true
	return true
}

func raceModeInit() { runtime.GOMAXPROCS(1) }

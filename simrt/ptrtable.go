package simrt

// ptrTable maps addresses to registry ids. It is an open-addressing table over plain slices
// instead of a Go map: the runtime's map helpers report their accesses to the race detector
// even when called from this (uninstrumented) package, which would fill the race build's log
// with reports about the simulator's own table (protected by InternalLock, which the detector
// cannot see).
type ptrTable struct {
	keys []uintptr
	vals []uint64
	n    int
}

func newPtrTable() *ptrTable {
	return &ptrTable{keys: make([]uintptr, 256), vals: make([]uint64, 256)}
}

func (t *ptrTable) slot(k uintptr) int {
	h := uint64(k) * 0x9e3779b97f4a7c15
	return int(h>>32) & (len(t.keys) - 1)
}

func (t *ptrTable) get(k uintptr) (uint64, bool) {
	for i := t.slot(k); ; i = (i + 1) & (len(t.keys) - 1) {
		if t.keys[i] == k {
			return t.vals[i], true
		}
		if t.keys[i] == 0 {
			return 0, false
		}
	}
}

func (t *ptrTable) put(k uintptr, v uint64) {
	if (t.n+1)*2 > len(t.keys) {
		ok, ov := t.keys, t.vals
		t.keys, t.vals, t.n = make([]uintptr, 2*len(ok)), make([]uint64, 2*len(ok)), 0
		for i, k2 := range ok {
			if k2 != 0 {
				t.put(k2, ov[i])
			}
		}
	}
	for i := t.slot(k); ; i = (i + 1) & (len(t.keys) - 1) {
		if t.keys[i] == k {
			t.vals[i] = v
			return
		}
		if t.keys[i] == 0 {
			t.keys[i], t.vals[i] = k, v
			t.n++
			return
		}
	}
}

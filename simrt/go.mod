module verif.local/simrt

go 1.23

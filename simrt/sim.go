// Package simrt is the simulation runtime that the instrumented bio-rd is linked against.
//
// It owns every product timer (Timer/Ticker/After/Sleep), every product mutex
// (Mutex/RWMutex, with a logical lock table for deadlock detection and an optional
// scheduling gate before each acquisition) and the iteration order of every product
// map range (Keys). When no simulation is active all of these fall back to the real
// time / sync behaviour, so instrumented code still works outside a simulation.
//
// The package has no dependencies besides the standard library and must not import
// any bio-rd package (it is imported by them).
package simrt

import (
	"container/heap"
	"fmt"
	"sort"
	"sync/atomic"
	"time"
)

// Rand is a splitmix64 PRNG. All simulator choices come from instances of it.
type Rand struct{ s uint64 }

func NewRand(seed uint64) *Rand { return &Rand{s: seed} }

func (r *Rand) Uint64() uint64 {
	r.s += 0x9e3779b97f4a7c15
	z := r.s
	z = (z ^ (z >> 30)) * 0xbf58476d1ce4e5b9
	z = (z ^ (z >> 27)) * 0x94d049bb133111eb
	return z ^ (z >> 31)
}

// Intn returns a value in [0,n). n<=0 yields 0.
func (r *Rand) Intn(n int) int {
	if n <= 0 {
		return 0
	}
	return int(r.Uint64() % uint64(n))
}

func (r *Rand) Float64() float64 { return float64(r.Uint64()>>11) / (1 << 53) }

// Chance returns true with probability p.
func (r *Rand) Chance(p float64) bool { return r.Float64() < p }

// Fork derives an independent stream.
func (r *Rand) Fork(label uint64) *Rand {
	return NewRand(r.Uint64() ^ (label * 0x9e3779b97f4a7c15))
}

// Hash64 mixes a string into a 64 bit value (FNV-1a).
func Hash64(s string) uint64 {
	h := uint64(14695981039346656037)
	for i := 0; i < len(s); i++ {
		h ^= uint64(s[i])
		h *= 1099511628211
	}
	return h
}

type event struct {
	at    time.Duration
	prio  int64
	seq   uint64
	fn    func()
	idx   int
	label string
	dead  bool
}

type eventHeap []*event

func (h eventHeap) Len() int { return len(h) }
func (h eventHeap) Less(i, j int) bool {
	a, b := h[i], h[j]
	if a.at != b.at {
		return a.at < b.at
	}
	if a.prio != b.prio {
		return a.prio < b.prio
	}
	return a.seq < b.seq
}
func (h eventHeap) Swap(i, j int) { h[i], h[j] = h[j], h[i]; h[i].idx = i; h[j].idx = j }
func (h *eventHeap) Push(x any)   { e := x.(*event); e.idx = len(*h); *h = append(*h, e) }
func (h *eventHeap) Pop() any {
	old := *h
	n := len(old)
	e := old[n-1]
	old[n-1] = nil
	*h = old[:n-1]
	e.idx = -1
	return e
}

// Config of one simulation.
type Config struct {
	Seed uint64
	// ShuffleTies: events that are due at the same simulated instant are ordered by a
	// PRNG priority instead of creation order.
	ShuffleTies bool
	// ShuffleMaps: map iteration order (Keys) is a PRNG permutation of the canonical order.
	ShuffleMaps bool
	// RandomHandoff: a released mutex is handed to a PRNG-chosen waiter instead of FIFO.
	RandomHandoff bool
	// GateProb: probability that a goroutine parks at the scheduling gate before a lock
	// acquisition (task-level scheduling). 0 disables gating.
	GateProb float64
	// Sticky: probability that the gate scheduler continues with the goroutine it ran last.
	Sticky float64
	// Priority: the gate scheduler runs the gated goroutine with the highest (random, occasionally
	// lowered) priority instead of choosing uniformly (see releaseOneGated).
	Priority bool
	// TimerSkewPPM scales product timer durations (clock skew between DUT and peers).
	TimerSkewPPM int64
	// Knobs overrides for tuning constants.
	Knobs map[string]int64
	// BatchInstant: all events due at the same simulated instant fire before the simulator
	// waits for quiescence (instead of one event per quiescence barrier).
	BatchInstant bool
	// BatchWindow (with BatchInstant): events due up to this much later fire in the same batch,
	// i.e. early by at most the window (a timer that fires a little early is legal for code
	// whose only oracle is the race detector; no other property uses it).
	BatchWindow time.Duration
}

// Stats are counters measured during a run (never PRNG consuming).
type Stats struct {
	Events          uint64
	TimersCreated   uint64
	TimerFires      uint64
	TieShuffles     uint64
	MapIterations   uint64
	MapShuffles     uint64
	AmbiguousKeys   uint64
	LockAcquires    uint64
	LockContended   uint64
	GateParks       uint64
	GateReleases    uint64
	SchedChoices    uint64
	SchedAlternates uint64 // gate decisions with more than one candidate
	ScheduleHash    uint64
	SimTime         time.Duration
}

// Sim is one simulation instance. Exactly one may be active per process at a time.
type Sim struct {
	mu    InternalLock // protects everything below; never held while blocking
	cfg   Config
	now   time.Duration
	q     eventHeap
	seq   uint64
	rng   *Rand // event priorities, map shuffles, handoff
	sched *Rand // gate scheduling
	stats Stats

	// pointer registry for canonical ordering of pointer-typed map keys
	ptrIDs  *ptrTable
	nextPtr uint64
	keep    []any // keeps registered pointers alive so addresses are not reused

	// lock table
	waiters map[*waiter]struct{}
	gated   []*gateEntry
	lastRun uint64
	// priority scheduling (cfg.Priority)
	prio      map[uint64]int64
	prioFloor int64
	driver  uint64 // goroutine that created the simulation and drives the event loop

	// Wait is the quiescence barrier (synctest.Wait). Set by the harness.
	Wait func()
	// AdvanceClock moves the fake clock (time.Sleep inside the bubble). Set by the harness.
	AdvanceClock func(d time.Duration)
	// OnTrace receives trace lines (optional).
	OnTrace func(string)
	// HoldSettle > 0 turns Settle into a no-op (driver only): used to start several
	// operations before the scheduler lets any of them run.
	HoldSettle int
}

var cur atomic.Pointer[Sim]

// Active returns the active simulation or nil.
func Active() *Sim { return cur.Load() }

// New creates a simulation and makes it the active one.
func New(cfg Config) *Sim {
	s := &Sim{
		cfg:     cfg,
		rng:     NewRand(cfg.Seed ^ 0xa5a5a5a5a5a5a5a5),
		sched:   NewRand(cfg.Seed ^ 0x5a5a5a5a5a5a5a5a),
		ptrIDs:  newPtrTable(),
		waiters: make(map[*waiter]struct{}),
		Wait:    func() {},
		AdvanceClock: func(time.Duration) {
		},
	}
	raceModeInit()
	s.driver = goid()
	cur.Store(s)
	return s
}

// Close deactivates the simulation.
func (s *Sim) Close() { cur.CompareAndSwap(s, nil) }

// Now returns the simulated time since start.
func (s *Sim) Now() time.Duration {
	s.mu.Lock()
	defer s.mu.Unlock()
	return s.now
}

// Stats returns a copy of the counters.
func (s *Sim) Stats() Stats {
	s.mu.Lock()
	defer s.mu.Unlock()
	st := s.stats
	st.SimTime = s.now
	return st
}

// Config returns the configuration.
func (s *Sim) Config() Config { return s.cfg }

func (s *Sim) scheduleLocked(d time.Duration, prio int64, label string, fn func()) *event {
	if d < 0 {
		d = 0
	}
	s.seq++
	e := &event{at: s.now + d, prio: prio, seq: s.seq, fn: fn, label: label}
	heap.Push(&s.q, e)
	return e
}

// At schedules fn to run on the driver goroutine at absolute simulated time at
// (or now if that is in the past). prio orders events of the same instant (lower first).
func (s *Sim) At(at time.Duration, prio int64, label string, fn func()) {
	s.mu.Lock()
	defer s.mu.Unlock()
	d := at - s.now
	s.scheduleLocked(d, prio, label, fn)
}

// After schedules fn to run on the driver goroutine after d.
func (s *Sim) After(d time.Duration, prio int64, label string, fn func()) {
	s.mu.Lock()
	defer s.mu.Unlock()
	s.scheduleLocked(d, prio, label, fn)
}

// productPrio is the priority given to product timers.
func (s *Sim) productPrioLocked() int64 {
	if s.cfg.ShuffleTies {
		s.stats.TieShuffles++
		return int64(s.rng.Uint64() >> 2)
	}
	return 1 << 40
}

// NextEventTime returns the time of the next pending event.
func (s *Sim) NextEventTime() (time.Duration, bool) {
	s.mu.Lock()
	defer s.mu.Unlock()
	for s.q.Len() > 0 && s.q[0].dead {
		heap.Pop(&s.q)
	}
	if s.q.Len() == 0 {
		return 0, false
	}
	return s.q[0].at, true
}

// Step pops and fires the next event whose time is <= limit, advancing the clock to
// it first, then waits for quiescence (draining the scheduling gate when gating is
// on). It returns false if no such event exists.
func (s *Sim) Step(limit time.Duration) bool {
	s.mu.Lock()
	for s.q.Len() > 0 && s.q[0].dead {
		heap.Pop(&s.q)
	}
	if s.q.Len() == 0 || s.q[0].at > limit {
		s.mu.Unlock()
		return false
	}
	e := heap.Pop(&s.q).(*event)
	delta := e.at - s.now
	if delta > 0 {
		s.now = e.at
	}
	s.stats.Events++
	s.mu.Unlock()
	if delta > 0 {
		s.AdvanceClock(delta)
	}
	if s.OnTrace != nil && e.label != "" {
		s.OnTrace(fmt.Sprintf("%d ev %s", int64(e.at), e.label))
	}
	if s.cfg.BatchInstant {
		s.HoldSettle++ // handlers that settle themselves must not split the batch
	}
	e.fn()
	if s.cfg.BatchInstant {
		// fire everything that is due at this very instant before anybody runs: the goroutines
		// these events wake are then runnable together (used by the race build, where activity
		// separated by a quiescence barrier is ordered and can never be reported as a race)
		for n := 0; n < 64; n++ {
			s.mu.Lock()
			for s.q.Len() > 0 && s.q[0].dead {
				heap.Pop(&s.q)
			}
			if s.q.Len() == 0 || s.q[0].at > s.now+s.cfg.BatchWindow {
				s.mu.Unlock()
				break
			}
			e2 := heap.Pop(&s.q).(*event)
			s.stats.Events++
			s.mu.Unlock()
			if s.OnTrace != nil && e2.label != "" {
				s.OnTrace(fmt.Sprintf("%d ev %s", int64(e2.at), e2.label))
			}
			e2.fn()
		}
		s.HoldSettle--
	}
	s.Settle()
	return true
}

// RunUntil fires all events up to and including simulated time t and then advances the
// clock to t.
func (s *Sim) RunUntil(t time.Duration) {
	for s.Step(t) {
	}
	s.mu.Lock()
	delta := t - s.now
	if delta > 0 {
		s.now = t
	}
	s.mu.Unlock()
	if delta > 0 {
		s.AdvanceClock(delta)
		s.Settle()
	}
}

// RunFor advances simulated time by d.
func (s *Sim) RunFor(d time.Duration) { s.RunUntil(s.Now() + d) }

// Settle waits for quiescence. With gating on it repeatedly releases one gated
// goroutine (chosen by the schedule PRNG) and waits again until no goroutine is gated.
func (s *Sim) Settle() {
	if s.HoldSettle > 0 {
		return // several actions are being released together; the caller settles once afterwards
	}
	for {
		s.Wait()
		if !s.releaseOneGated() {
			return
		}
	}
}

// Knob returns the per-run value of a tuning constant.
func Knob(name string, def int64) int64 {
	s := cur.Load()
	if s == nil {
		return def
	}
	if v, ok := s.cfg.Knobs[name]; ok {
		return v
	}
	return def
}

// KnobDuration is Knob for durations.
func KnobDuration(name string, def time.Duration) time.Duration {
	return time.Duration(Knob(name, int64(def)))
}

func (s *Sim) skew(d time.Duration) time.Duration {
	if s.cfg.TimerSkewPPM == 0 || d <= 0 {
		return d
	}
	return d + time.Duration(int64(d)/1000000*s.cfg.TimerSkewPPM)
}

// PendingLabels lists labels of pending events (debugging aid), sorted.
func (s *Sim) PendingLabels() []string {
	s.mu.Lock()
	defer s.mu.Unlock()
	var out []string
	for _, e := range s.q {
		if !e.dead {
			out = append(out, fmt.Sprintf("%d:%s", int64(e.at), e.label))
		}
	}
	sort.Strings(out)
	return out
}

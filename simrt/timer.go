package simrt

import (
	"runtime"
	"time"
)

// Timer replaces time.Timer in instrumented code. Same exported surface (C, Stop, Reset).
// Semantics follow Go >= 1.23: after Stop or Reset returns no stale value is delivered.
type Timer struct {
	C    <-chan time.Time
	c    chan time.Time
	s    *Sim
	ev   *event
	f    func()
	real *time.Timer
	site string
}

func callerSite(skip int) string {
	_, file, line, ok := runtime.Caller(skip)
	if !ok {
		return "?"
	}
	// keep only the base name
	for i := len(file) - 1; i >= 0; i-- {
		if file[i] == '/' {
			file = file[i+1:]
			break
		}
	}
	return file + ":" + itoa(line)
}

func itoa(n int) string {
	if n == 0 {
		return "0"
	}
	var b [20]byte
	i := len(b)
	neg := n < 0
	if neg {
		n = -n
	}
	for n > 0 {
		i--
		b[i] = byte('0' + n%10)
		n /= 10
	}
	if neg {
		i--
		b[i] = '-'
	}
	return string(b[i:])
}

func newTimer(d time.Duration, f func(), site string) *Timer {
	s := cur.Load()
	if s == nil {
		if f != nil {
			rt := time.AfterFunc(d, f)
			return &Timer{real: rt}
		}
		rt := time.NewTimer(d)
		return &Timer{C: rt.C, real: rt}
	}
	t := &Timer{s: s, f: f, site: site}
	if f == nil {
		t.c = make(chan time.Time, 1)
		t.C = t.c
	}
	s.mu.Lock()
	s.stats.TimersCreated++
	t.armLocked(d)
	s.mu.Unlock()
	return t
}

func (t *Timer) armLocked(d time.Duration) {
	s := t.s
	t.ev = s.scheduleLocked(s.skew(d), s.productPrioLocked(), "timer "+t.site, func() { t.fire() })
}

func (t *Timer) fire() {
	s := t.s
	s.mu.Lock()
	s.stats.TimerFires++
	t.ev = nil
	s.mu.Unlock()
	if t.f != nil {
		go t.f()
		return
	}
	select {
	case t.c <- time.Now():
	default:
	}
}

// NewTimer replaces time.NewTimer.
func NewTimer(d time.Duration) *Timer { return newTimer(d, nil, callerSite(2)) }

// AfterFunc replaces time.AfterFunc.
func AfterFunc(d time.Duration, f func()) *Timer { return newTimer(d, f, callerSite(2)) }

// After replaces time.After.
func After(d time.Duration) <-chan time.Time { return newTimer(d, nil, callerSite(2)).C }

// Stop replaces (*time.Timer).Stop.
func (t *Timer) Stop() bool {
	if t.real != nil {
		return t.real.Stop()
	}
	s := t.s
	s.mu.Lock()
	active := t.ev != nil && !t.ev.dead
	if t.ev != nil {
		t.ev.dead = true
		t.ev = nil
	}
	s.mu.Unlock()
	if t.c != nil {
		select {
		case <-t.c:
			active = true // value not yet received counts as "not fired" under Go 1.23 semantics
		default:
		}
	}
	return active
}

// Reset replaces (*time.Timer).Reset.
func (t *Timer) Reset(d time.Duration) bool {
	if t.real != nil {
		return t.real.Reset(d)
	}
	active := t.Stop()
	s := t.s
	s.mu.Lock()
	t.armLocked(d)
	s.mu.Unlock()
	return active
}

// Ticker replaces time.Ticker.
type Ticker struct {
	C      <-chan time.Time
	c      chan time.Time
	s      *Sim
	ev     *event
	period time.Duration
	real   *time.Ticker
	site   string
}

// NewTicker replaces time.NewTicker.
func NewTicker(d time.Duration) *Ticker {
	s := cur.Load()
	if s == nil {
		rt := time.NewTicker(d)
		return &Ticker{C: rt.C, real: rt}
	}
	if d <= 0 {
		panic("non-positive interval for NewTicker")
	}
	t := &Ticker{s: s, period: d, site: callerSite(2)}
	t.c = make(chan time.Time, 1)
	t.C = t.c
	s.mu.Lock()
	s.stats.TimersCreated++
	t.armLocked()
	s.mu.Unlock()
	return t
}

func (t *Ticker) armLocked() {
	s := t.s
	t.ev = s.scheduleLocked(s.skew(t.period), s.productPrioLocked(), "ticker "+t.site, func() { t.fire() })
}

func (t *Ticker) fire() {
	s := t.s
	s.mu.Lock()
	s.stats.TimerFires++
	t.armLocked()
	s.mu.Unlock()
	select {
	case t.c <- time.Now():
	default:
	}
}

// Stop replaces (*time.Ticker).Stop.
func (t *Ticker) Stop() {
	if t.real != nil {
		t.real.Stop()
		return
	}
	s := t.s
	s.mu.Lock()
	if t.ev != nil {
		t.ev.dead = true
		t.ev = nil
	}
	s.mu.Unlock()
}

// Reset replaces (*time.Ticker).Reset.
func (t *Ticker) Reset(d time.Duration) {
	if t.real != nil {
		t.real.Reset(d)
		return
	}
	s := t.s
	s.mu.Lock()
	if t.ev != nil {
		t.ev.dead = true
	}
	t.period = d
	t.armLocked()
	s.mu.Unlock()
}

// Tick replaces time.Tick.
func Tick(d time.Duration) <-chan time.Time { return NewTicker(d).C }

// Sleep replaces time.Sleep.
func Sleep(d time.Duration) {
	s := cur.Load()
	if s == nil {
		time.Sleep(d)
		return
	}
	if d <= 0 {
		return
	}
	ch := make(chan struct{})
	site := callerSite(2)
	s.mu.Lock()
	s.scheduleLocked(s.skew(d), s.productPrioLocked(), "sleep "+site, func() { close(ch) })
	s.mu.Unlock()
	<-ch
}

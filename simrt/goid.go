package simrt

import (
	"runtime"
	"sync"
	"unsafe"
)

// Fast goroutine ids. runtime.Stack (the portable way) walks and formats the whole stack
// and made lock acquisition ~50x more expensive than the product code under test. The g
// pointer is read with a two instruction assembly stub instead; the offset of the goid
// field inside runtime.g is discovered at start-up by comparing with the slow method in
// several goroutines (so it follows the toolchain), with the slow method as fallback.

func getg() uintptr

var goidOffset uintptr // 0 = unknown, use slowGoid

func slowGoid() uint64 {
	var buf [64]byte
	n := runtime.Stack(buf[:], false)
	var id uint64
	for i := len("goroutine "); i < n; i++ {
		c := buf[i]
		if c < '0' || c > '9' {
			break
		}
		id = id*10 + uint64(c-'0')
	}
	return id
}

func candidates() map[uintptr]bool {
	g := getg()
	id := slowGoid()
	out := map[uintptr]bool{}
	if g == 0 {
		return out
	}
	for off := uintptr(8); off < 512; off += 8 {
		if *(*uint64)(unsafe.Pointer(g + off)) == id {
			out[off] = true
		}
	}
	return out
}

func init() {
	var mu sync.Mutex
	var sets []map[uintptr]bool
	var wg sync.WaitGroup
	for i := 0; i < 6; i++ {
		wg.Add(1)
		go func() {
			defer wg.Done()
			c := candidates()
			mu.Lock()
			sets = append(sets, c)
			mu.Unlock()
		}()
	}
	wg.Wait()
	common := map[uintptr]int{}
	for _, s := range sets {
		for off := range s {
			common[off]++
		}
	}
	var found []uintptr
	for off, n := range common {
		if n == len(sets) {
			found = append(found, off)
		}
	}
	if len(found) == 1 {
		goidOffset = found[0]
	}
}

// goid returns the id of the calling goroutine.
func goid() uint64 {
	if goidOffset != 0 {
		return *(*uint64)(unsafe.Pointer(getg() + goidOffset))
	}
	return slowGoid()
}

// FastGoid reports whether the fast path is in use (for evidence / diagnostics).
func FastGoid() bool { return goidOffset != 0 }

package simrt

import (
	"fmt"
	"os"
	"reflect"
	"sort"
	"unsafe"
)

// Labeler may be implemented by pointer-like map keys to give them a run-independent name.
type Labeler interface{ VerifLabel() string }

// Keys returns the keys of m in an order decided by the simulator: a canonical order
// (by value; pointers by a first-seen registry or their VerifLabel) permuted by the
// run's PRNG when Config.ShuffleMaps is set. Outside a simulation it returns Go's
// native (random) order.
func Keys[M ~map[K]V, K comparable, V any](m M) []K {
	keys := make([]K, 0, len(m))
	for k := range m {
		keys = append(keys, k)
	}
	// Everything that touches simulator state lives in the non-generic orderKeys: this generic
	// body is compiled into the (race-instrumented) calling package.
	if len(keys) < 2 {
		orderKeys(nil)
		return keys
	}
	vals := make([]reflect.Value, len(keys))
	for i := range keys {
		vals[i] = reflect.ValueOf(&keys[i]).Elem()
	}
	idx := orderKeys(vals)
	if idx == nil {
		return keys
	}
	out := make([]K, len(keys))
	for i, j := range idx {
		out[i] = keys[j]
	}
	return out
}

// orderKeys returns the permutation in which the keys are to be visited (nil: as they are).
func orderKeys(vals []reflect.Value) []int {
	s := cur.Load()
	if s == nil || len(vals) < 2 {
		if s != nil {
			s.mu.Lock()
			s.stats.MapIterations++
			s.mu.Unlock()
		}
		return nil
	}
	s.mu.Lock()
	defer s.mu.Unlock()
	s.stats.MapIterations++
	// register unseen pointers first, in a canonical sub-order where one exists
	s.registerPointersLocked(vals)
	idx := make([]int, len(vals))
	for i := range idx {
		idx[i] = i
	}
	sort.SliceStable(idx, func(a, b int) bool { return s.cmpValue(vals[idx[a]], vals[idx[b]]) < 0 })
	if s.cfg.ShuffleMaps {
		s.stats.MapShuffles++
		for i := len(idx) - 1; i > 0; i-- {
			j := s.rng.Intn(i + 1)
			idx[i], idx[j] = idx[j], idx[i]
		}
	}
	return idx
}

// LabelPointer gives p (a pointer) a stable registry id now, so that later map
// iterations order it deterministically. The harness calls this for objects it creates
// or discovers, in a deterministic order.
func LabelPointer(p any) {
	s := cur.Load()
	if s == nil || p == nil {
		return
	}
	v := reflect.ValueOf(p)
	if !isPointerKind(v.Kind()) || v.IsNil() {
		return
	}
	s.mu.Lock()
	defer s.mu.Unlock()
	s.ptrIDLocked(v, true)
}

// ifaceOf returns the value as an interface, also for unexported struct fields of an
// addressable key (read-only use).
func ifaceOf(v reflect.Value) (any, bool) {
	if v.CanInterface() {
		return v.Interface(), true
	}
	if v.CanAddr() {
		return reflect.NewAt(v.Type(), unsafe.Pointer(v.UnsafeAddr())).Elem().Interface(), true
	}
	return nil, false
}

func isPointerKind(k reflect.Kind) bool {
	switch k {
	case reflect.Ptr, reflect.Chan, reflect.Func, reflect.Map, reflect.UnsafePointer:
		return true
	}
	return false
}

func (s *Sim) ptrIDLocked(v reflect.Value, create bool) uint64 {
	var addr uintptr
	if v.Kind() == reflect.UnsafePointer {
		addr = uintptr(v.UnsafePointer())
	} else {
		addr = v.Pointer()
	}
	if addr == 0 {
		return 0
	}
	if id, ok := s.ptrIDs.get(addr); ok {
		return id
	}
	if !create {
		return 0
	}
	s.nextPtr++
	s.ptrIDs.put(addr, s.nextPtr)
	if x, ok := ifaceOf(v); ok {
		s.keep = append(s.keep, x)
	}
	return s.nextPtr
}

// registerPointersLocked assigns registry ids to pointers (top-level or nested) that
// have not been seen before. If more than one unseen pointer shows up in one call their
// relative order cannot be made canonical; this is counted (AmbiguousKeys) so that the
// evidence says how often it happened.
func (s *Sim) registerPointersLocked(vals []reflect.Value) {
	var fresh []reflect.Value
	var walk func(v reflect.Value)
	walk = func(v reflect.Value) {
		switch v.Kind() {
		case reflect.Interface:
			if !v.IsNil() {
				walk(v.Elem())
			}
		case reflect.Struct:
			for i := 0; i < v.NumField(); i++ {
				walk(v.Field(i))
			}
		case reflect.Array:
			for i := 0; i < v.Len(); i++ {
				walk(v.Index(i))
			}
		default:
			if isPointerKind(v.Kind()) && !v.IsNil() {
				if s.ptrIDLocked(v, false) == 0 {
					fresh = append(fresh, v)
				}
			}
		}
	}
	for _, v := range vals {
		walk(v)
	}
	if len(fresh) == 0 {
		return
	}
	if len(fresh) > 1 {
		// try labels for a canonical order among the fresh ones
		labels := make([]string, len(fresh))
		all := true
		for i, v := range fresh {
			if x, ok := ifaceOf(v); ok {
				if l, ok := x.(Labeler); ok {
					labels[i] = v.Type().String() + "/" + l.VerifLabel()
					continue
				}
			}
			labels[i] = v.Type().String()
			all = false
		}
		order := make([]int, len(fresh))
		for i := range order {
			order[i] = i
		}
		sort.SliceStable(order, func(a, b int) bool { return labels[order[a]] < labels[order[b]] })
		amb := !all
		if all {
			for i := 1; i < len(order); i++ {
				if labels[order[i]] == labels[order[i-1]] {
					amb = true
				}
			}
		} else {
			// different dynamic types are still ordered by type name
			amb = false
			for i := 1; i < len(order); i++ {
				if labels[order[i]] == labels[order[i-1]] {
					amb = true
				}
			}
		}
		if amb {
			s.stats.AmbiguousKeys++
			if os.Getenv("VERIF_DEBUG_AMBIGUOUS") != "" {
				fmt.Fprintf(os.Stderr, "ambiguous map keys (%s) at %s\n", labels[order[0]], callerSite(4))
			}
		}
		sorted := make([]reflect.Value, len(fresh))
		for i, j := range order {
			sorted[i] = fresh[j]
		}
		fresh = sorted
	}
	for _, v := range fresh {
		s.ptrIDLocked(v, true)
	}
}

// cmpValue is a total order on comparable values (canonical given the pointer registry).
func (s *Sim) cmpValue(a, b reflect.Value) int {
	switch a.Kind() {
	case reflect.Bool:
		x, y := a.Bool(), b.Bool()
		switch {
		case x == y:
			return 0
		case !x:
			return -1
		}
		return 1
	case reflect.Int, reflect.Int8, reflect.Int16, reflect.Int32, reflect.Int64:
		x, y := a.Int(), b.Int()
		switch {
		case x < y:
			return -1
		case x > y:
			return 1
		}
		return 0
	case reflect.Uint, reflect.Uint8, reflect.Uint16, reflect.Uint32, reflect.Uint64, reflect.Uintptr:
		x, y := a.Uint(), b.Uint()
		switch {
		case x < y:
			return -1
		case x > y:
			return 1
		}
		return 0
	case reflect.Float32, reflect.Float64:
		x, y := a.Float(), b.Float()
		switch {
		case x < y:
			return -1
		case x > y:
			return 1
		}
		return 0
	case reflect.String:
		x, y := a.String(), b.String()
		switch {
		case x < y:
			return -1
		case x > y:
			return 1
		}
		return 0
	case reflect.Struct:
		for i := 0; i < a.NumField(); i++ {
			if c := s.cmpValue(a.Field(i), b.Field(i)); c != 0 {
				return c
			}
		}
		return 0
	case reflect.Array:
		for i := 0; i < a.Len(); i++ {
			if c := s.cmpValue(a.Index(i), b.Index(i)); c != 0 {
				return c
			}
		}
		return 0
	case reflect.Interface:
		an, bn := a.IsNil(), b.IsNil()
		if an || bn {
			switch {
			case an && bn:
				return 0
			case an:
				return -1
			}
			return 1
		}
		ae, be := a.Elem(), b.Elem()
		if ae.Type() != be.Type() {
			x, y := ae.Type().String(), be.Type().String()
			if x < y {
				return -1
			}
			if x > y {
				return 1
			}
			return 0
		}
		return s.cmpValue(ae, be)
	default:
		if isPointerKind(a.Kind()) {
			an, bn := a.IsNil(), b.IsNil()
			if an || bn {
				switch {
				case an && bn:
					return 0
				case an:
					return -1
				}
				return 1
			}
			x, y := s.ptrIDLocked(a, true), s.ptrIDLocked(b, true)
			switch {
			case x < y:
				return -1
			case x > y:
				return 1
			}
			return 0
		}
	}
	return 0
}

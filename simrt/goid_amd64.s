#include "textflag.h"

// func getg() uintptr
TEXT ·getg(SB),NOSPLIT,$0-8
	MOVQ (TLS), R14
	MOVQ R14, ret+0(FP)
	RET

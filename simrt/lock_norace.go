//go:build !race

package simrt

import "sync"

// RaceMode reports whether this is the race-detector build (C26). In the normal build the
// simulator's own state and the harness are protected by ordinary mutexes.
const RaceMode = false

// InternalLock protects simulator and harness state (never product state).
type InternalLock = sync.Mutex

func raceModeInit() {}

package simrt

import (
	"fmt"
	"runtime"
	"sort"
	"strings"
	"sync"
)

type waiter struct {
	g      uint64
	ch     chan struct{}
	write  bool
	mu     *lockState
	stack  string
	ticket uint64
}

// lockState is the logical state shared by Mutex and RWMutex.
type lockState struct {
	im      InternalLock // held for a few instructions only
	writer  uint64     // goroutine holding the write lock (0 = none)
	wheld   bool
	readers map[uint64]int
	nread   int
	queue   []*waiter
	site    string // first acquisition site (for reports)
}

// Mutex replaces sync.Mutex in instrumented code.
type Mutex struct {
	st   lockState
	real sync.Mutex
}

// RWMutex replaces sync.RWMutex in instrumented code.
type RWMutex struct {
	st   lockState
	real sync.RWMutex
}

func (m *Mutex) Lock() {
	s := cur.Load()
	if s == nil || RaceMode {
		s.raceYield()
		m.real.Lock()
		return
	}
	s.acquire(&m.st, true)
}

func (m *Mutex) TryLock() bool {
	s := cur.Load()
	if s == nil || RaceMode {
		return m.real.TryLock()
	}
	return s.tryAcquire(&m.st, true)
}

func (m *Mutex) Unlock() {
	s := cur.Load()
	if s == nil || RaceMode {
		m.real.Unlock()
		return
	}
	s.release(&m.st, true)
}

func (m *RWMutex) Lock() {
	s := cur.Load()
	if s == nil || RaceMode {
		s.raceYield()
		m.real.Lock()
		return
	}
	s.acquire(&m.st, true)
}

func (m *RWMutex) Unlock() {
	s := cur.Load()
	if s == nil || RaceMode {
		m.real.Unlock()
		return
	}
	s.release(&m.st, true)
}

func (m *RWMutex) RLock() {
	s := cur.Load()
	if s == nil || RaceMode {
		s.raceYield()
		m.real.RLock()
		return
	}
	s.acquire(&m.st, false)
}

func (m *RWMutex) RUnlock() {
	s := cur.Load()
	if s == nil || RaceMode {
		m.real.RUnlock()
		return
	}
	s.release(&m.st, false)
}

func (m *RWMutex) TryLock() bool {
	s := cur.Load()
	if s == nil || RaceMode {
		return m.real.TryLock()
	}
	return s.tryAcquire(&m.st, true)
}

func (m *RWMutex) TryRLock() bool {
	s := cur.Load()
	if s == nil || RaceMode {
		return m.real.TryRLock()
	}
	return s.tryAcquire(&m.st, false)
}

// RLocker is provided for completeness.
func (m *RWMutex) RLocker() sync.Locker { return (*rlocker)(m) }

type rlocker RWMutex

func (r *rlocker) Lock()   { (*RWMutex)(r).RLock() }
func (r *rlocker) Unlock() { (*RWMutex)(r).RUnlock() }

type gateEntry struct {
	g  uint64
	ch chan struct{}
}

// raceYield (race build only): before a product lock acquisition the goroutine yields the
// processor a PRNG-chosen number of times. Gosched adds no happens-before edge, so the schedule
// varies between runs while the detector still sees only the product's synchronisation.
func (s *Sim) raceYield() {
	if s == nil || !RaceMode || s.cfg.GateProb <= 0 {
		return
	}
	if goid() == s.driver {
		return
	}
	for n := 0; n < 3 && s.sched.Chance(s.cfg.GateProb); n++ {
		s.stats.GateParks++
		s.stats.SchedChoices++
		s.stats.ScheduleHash = s.stats.ScheduleHash*1099511628211 ^ goid()*0x9e3779b97f4a7c15
		runtime.Gosched()
	}
}

// gate parks the caller until the driver schedules it (task-level scheduling).
func (s *Sim) gate(g uint64) {
	if s.cfg.GateProb <= 0 || g == s.driver || RaceMode {
		return // the driver (harness observation code) is never scheduled against the product
	}
	s.mu.Lock()
	if s.cfg.GateProb < 1 && !s.sched.Chance(s.cfg.GateProb) {
		s.mu.Unlock()
		return
	}
	ge := &gateEntry{g: g, ch: make(chan struct{})}
	s.gated = append(s.gated, ge)
	s.stats.GateParks++
	s.mu.Unlock()
	<-ge.ch
}

// Yield is an explicit scheduling point for harness tasks.
func Yield() {
	s := cur.Load()
	if s == nil {
		return
	}
	s.gate(goid())
}

// releaseOneGated lets one gated goroutine continue. Called by the driver at quiescence.
func (s *Sim) releaseOneGated() bool {
	s.mu.Lock()
	n := len(s.gated)
	if n == 0 {
		s.mu.Unlock()
		return false
	}
	// canonical order: by goroutine id (creation order is deterministic under the
	// one-runnable-goroutine regime), then the PRNG picks.
	sort.SliceStable(s.gated, func(i, j int) bool { return s.gated[i].g < s.gated[j].g })
	idx := -1
	if s.cfg.Priority {
		// priority scheduling (PCT, Burckhardt et al. 2010): every goroutine gets a random priority
		// when the scheduler first sees it, the gated goroutine with the highest priority runs, and
		// at a few random points the running goroutine drops below everybody else. A goroutine can
		// be starved through a long chain of lock acquisitions of another one, which uniform random
		// choice practically never does.
		if s.prio == nil {
			s.prio = map[uint64]int64{}
		}
		best := int64(-1 << 62)
		for i, ge := range s.gated {
			pr, ok := s.prio[ge.g]
			if !ok {
				pr = int64(s.sched.Uint64() >> 2)
				s.prio[ge.g] = pr
			}
			if pr > best {
				best, idx = pr, i
			}
		}
		if n > 1 {
			s.stats.SchedAlternates++
		}
		if s.sched.Chance(0.03) {
			s.prioFloor--
			s.prio[s.gated[idx].g] = s.prioFloor // change point: from now on it runs last
		}
	} else if n > 1 {
		s.stats.SchedAlternates++
		if s.cfg.Sticky > 0 && s.sched.Chance(s.cfg.Sticky) {
			for i, ge := range s.gated {
				if ge.g == s.lastRun {
					idx = i
					break
				}
			}
		}
	}
	if idx < 0 {
		idx = s.sched.Intn(n)
	}
	ge := s.gated[idx]
	s.gated = append(s.gated[:idx], s.gated[idx+1:]...)
	s.lastRun = ge.g
	s.stats.GateReleases++
	s.stats.SchedChoices++
	s.stats.ScheduleHash = s.stats.ScheduleHash*1099511628211 ^ uint64(idx+1)*0x9e3779b97f4a7c15 ^ uint64(n)
	s.mu.Unlock()
	close(ge.ch)
	return true
}

func (s *Sim) tryAcquire(l *lockState, write bool) bool {
	g := goid()
	l.im.Lock()
	defer l.im.Unlock()
	if write {
		if l.wheld || l.nread > 0 {
			return false
		}
		l.wheld = true
		l.writer = g
		return true
	}
	if l.wheld || hasWriterWaiting(l) {
		return false
	}
	addReader(l, g)
	return true
}

func hasWriterWaiting(l *lockState) bool {
	for _, w := range l.queue {
		if w.write {
			return true
		}
	}
	return false
}

func addReader(l *lockState, g uint64) {
	if l.readers == nil {
		l.readers = make(map[uint64]int)
	}
	l.readers[g]++
	l.nread++
}

func (s *Sim) acquire(l *lockState, write bool) {
	g := goid()
	s.gate(g)
	l.im.Lock()
	free := false
	if write {
		free = !l.wheld && l.nread == 0
	} else {
		// like sync.RWMutex: a waiting writer blocks new readers
		free = !l.wheld && !hasWriterWaiting(l)
	}
	if free {
		if write {
			l.wheld = true
			l.writer = g
		} else {
			addReader(l, g)
		}
		l.im.Unlock()
		s.mu.Lock()
		s.stats.LockAcquires++
		s.mu.Unlock()
		return
	}
	w := &waiter{g: g, ch: make(chan struct{}), write: write, mu: l}
	l.queue = append(l.queue, w)
	l.im.Unlock()

	var pcs [24]uintptr
	n := runtime.Callers(3, pcs[:])
	w.stack = framesString(pcs[:n])

	s.mu.Lock()
	s.stats.LockAcquires++
	s.stats.LockContended++
	s.seq++
	w.ticket = s.seq
	s.waiters[w] = struct{}{}
	s.mu.Unlock()

	<-w.ch // durable block; ownership was transferred by release()

	s.mu.Lock()
	delete(s.waiters, w)
	s.mu.Unlock()
}

func framesString(pcs []uintptr) string {
	var b strings.Builder
	fr := runtime.CallersFrames(pcs)
	for {
		f, more := fr.Next()
		fn := f.Function
		if i := strings.LastIndex(fn, "/"); i >= 0 {
			fn = fn[i+1:]
		}
		file := f.File
		if i := strings.LastIndex(file, "/"); i >= 0 {
			file = file[i+1:]
		}
		fmt.Fprintf(&b, "%s (%s:%d)\n", fn, file, f.Line)
		if !more {
			break
		}
	}
	return b.String()
}

func (s *Sim) release(l *lockState, write bool) {
	g := goid()
	var wake []*waiter
	l.im.Lock()
	if write {
		if !l.wheld {
			l.im.Unlock()
			panic("simrt: unlock of unlocked mutex")
		}
		l.wheld = false
		l.writer = 0
	} else {
		if l.nread <= 0 {
			l.im.Unlock()
			panic("simrt: RUnlock of unlocked RWMutex")
		}
		l.nread--
		// the releasing goroutine may differ from the acquiring one (legal in Go)
		if l.readers[g] > 0 {
			l.readers[g]--
			if l.readers[g] == 0 {
				delete(l.readers, g)
			}
		} else {
			for k := range l.readers {
				l.readers[k]--
				if l.readers[k] == 0 {
					delete(l.readers, k)
				}
				break
			}
		}
	}
	// hand over
	if len(l.queue) > 0 && !l.wheld {
		if l.nread == 0 {
			// pick the next waiter: FIFO or random
			idx := 0
			if s.cfg.RandomHandoff && len(l.queue) > 1 {
				s.mu.Lock()
				idx = s.rng.Intn(len(l.queue))
				s.mu.Unlock()
			}
			w := l.queue[idx]
			if w.write {
				l.queue = append(l.queue[:idx], l.queue[idx+1:]...)
				l.wheld = true
				l.writer = w.g
				wake = append(wake, w)
			} else {
				// admit all waiting readers (writers keep waiting)
				rest := l.queue[:0:0]
				for _, q := range l.queue {
					if !q.write {
						addReader(l, q.g)
						wake = append(wake, q)
					} else {
						rest = append(rest, q)
					}
				}
				l.queue = rest
			}
		}
	}
	l.im.Unlock()
	for _, w := range wake {
		close(w.ch)
	}
}

// Blocked describes a goroutine parked on a simulator mutex.
type Blocked struct {
	G      uint64
	Write  bool
	Owners []uint64
	Stack  string
	Ticket uint64
}

// BlockedOnLocks lists goroutines currently parked on simulator mutexes, in a
// deterministic order. Call at quiescence.
func (s *Sim) BlockedOnLocks() []Blocked {
	s.mu.Lock()
	ws := make([]*waiter, 0, len(s.waiters))
	for w := range s.waiters {
		ws = append(ws, w)
	}
	s.mu.Unlock()
	sort.Slice(ws, func(i, j int) bool { return ws[i].ticket < ws[j].ticket })
	out := make([]Blocked, 0, len(ws))
	for _, w := range ws {
		l := w.mu
		l.im.Lock()
		still := false
		for _, q := range l.queue {
			if q == w {
				still = true
				break
			}
		}
		var owners []uint64
		if l.wheld {
			owners = append(owners, l.writer)
		}
		for g := range l.readers {
			owners = append(owners, g)
		}
		l.im.Unlock()
		if !still {
			continue
		}
		sort.Slice(owners, func(i, j int) bool { return owners[i] < owners[j] })
		out = append(out, Blocked{G: w.g, Write: w.write, Owners: owners, Stack: w.stack, Ticket: w.ticket})
	}
	return out
}

// LockCycle looks for a cycle in the waits-for graph among goroutines parked on
// simulator mutexes. It returns the goroutines of one cycle (with their stacks) or nil.
func (s *Sim) LockCycle() []Blocked {
	bl := s.BlockedOnLocks()
	if len(bl) == 0 {
		return nil
	}
	byG := make(map[uint64]Blocked, len(bl))
	for _, b := range bl {
		byG[b.G] = b
	}
	const (
		white = 0
		grey  = 1
		black = 2
	)
	color := make(map[uint64]int)
	var path []uint64
	var cycle []uint64
	var dfs func(g uint64) bool
	dfs = func(g uint64) bool {
		color[g] = grey
		path = append(path, g)
		b, ok := byG[g]
		if ok {
			for _, o := range b.Owners {
				if o == g {
					// self deadlock (recursive lock)
					cycle = []uint64{g}
					return true
				}
				if _, blocked := byG[o]; !blocked {
					continue
				}
				switch color[o] {
				case white:
					if dfs(o) {
						return true
					}
				case grey:
					for i, p := range path {
						if p == o {
							cycle = append([]uint64{}, path[i:]...)
							return true
						}
					}
				}
			}
		}
		path = path[:len(path)-1]
		color[g] = black
		return false
	}
	for _, b := range bl {
		if color[b.G] == white && dfs(b.G) {
			out := make([]Blocked, 0, len(cycle))
			for _, g := range cycle {
				out = append(out, byG[g])
			}
			return out
		}
	}
	return nil
}

// GatedCount returns the number of goroutines parked at the scheduling gate.
func (s *Sim) GatedCount() int {
	s.mu.Lock()
	defer s.mu.Unlock()
	return len(s.gated)
}
